//! svserde — C20: every advertised feature set builds (results handed in by c20.sh) and serialised
//! state round-trips losslessly (JSON, CBOR and a compact non-self-describing format), then continues to accumulate identically.

#[macro_use]
#[path = "../../harness/src/engine.rs"]
mod engine;
mod compact;

use engine::{Obs, PResult, Run, Tier};
use proptest::prelude::*;
use serde::de::DeserializeOwned;
use serde::{Deserialize, Serialize};
use serde_json::{json, Value};
use stats_ci::comparison::{Paired, Unpaired};
use stats_ci::mean::{Arithmetic, Geometric, Harmonic};
use stats_ci::{proportion, Confidence, Interval, StatisticsOps};
use std::fmt::Debug;

#[derive(Clone, Debug, Serialize, Deserialize)]
pub enum Step {
    Append(f64, f64, bool),
    Extend(Vec<(f64, f64, bool)>),
    /// merge (+ or +=) with a state built from these values
    Merge(Vec<(f64, f64, bool)>, bool),
    /// merge the state with itself k times (counts beyond 2^32 are reachable only this way)
    Double(u8),
}
#[derive(Clone, Debug, Serialize, Deserialize)]
pub struct Case {
    pub ty: String,
    pub prefix: Vec<Step>,
    pub suffix: Vec<Step>,
    pub levels: Vec<(u8, f64)>,
}

pub trait St: Serialize + DeserializeOwned + PartialEq + Debug + Clone {
    fn new() -> Self;
    fn add(&mut self, x: f64, y: f64, flag: bool) -> Result<(), String>;
    fn merge(&mut self, other: Self, assign: bool);
    fn count(&self) -> usize;
    /// statistics and intervals as bit patterns
    fn observe(&self, levels: &[(u8, f64)]) -> Vec<u64>;
}
fn conf(k: u8, l: f64) -> Confidence {
    match k % 3 {
        0 => Confidence::new_two_sided(l),
        1 => Confidence::new_upper(l),
        _ => Confidence::new_lower(l),
    }
}
fn enc64(r: Result<Interval<f64>, stats_ci::error::CIError>) -> Vec<u64> {
    match r {
        Ok(Interval::TwoSided(a, b)) => vec![0, a.to_bits(), b.to_bits()],
        Ok(Interval::UpperOneSided(a)) => vec![1, a.to_bits(), 0],
        Ok(Interval::LowerOneSided(b)) => vec![2, 0, b.to_bits()],
        Err(e) => vec![9, format!("{e:?}").len() as u64, 0],
    }
}
fn enc32(r: Result<Interval<f32>, stats_ci::error::CIError>) -> Vec<u64> {
    match r {
        Ok(Interval::TwoSided(a, b)) => vec![0, a.to_bits() as u64, b.to_bits() as u64],
        Ok(Interval::UpperOneSided(a)) => vec![1, a.to_bits() as u64, 0],
        Ok(Interval::LowerOneSided(b)) => vec![2, 0, b.to_bits() as u64],
        Err(e) => vec![9, format!("{e:?}").len() as u64, 0],
    }
}

macro_rules! impl_mean {
    ($t:ident, $f:ty, $enc:ident, $positive:expr) => {
        impl St for $t<$f> {
            fn new() -> Self {
                <$t<$f>>::new()
            }
            fn add(&mut self, x: f64, _y: f64, _flag: bool) -> Result<(), String> {
                let v = if $positive { x.abs() + 0.015625 } else { x };
                StatisticsOps::append(self, v as $f).map_err(|e| format!("{e:?}"))
            }
            fn merge(&mut self, other: Self, assign: bool) {
                if assign {
                    *self += other;
                } else {
                    *self = *self + other;
                }
            }
            fn count(&self) -> usize {
                self.sample_count()
            }
            fn observe(&self, levels: &[(u8, f64)]) -> Vec<u64> {
                let mut v = vec![self.sample_count() as u64];
                if self.sample_count() >= 2 {
                    v.push((self.sample_mean() as f64).to_bits());
                    v.push((self.sample_sem() as f64).to_bits());
                    for &(k, l) in levels {
                        v.extend($enc(self.ci_mean(conf(k, l))));
                    }
                }
                v
            }
        }
    };
}
impl_mean!(Arithmetic, f64, enc64, false);
impl_mean!(Arithmetic, f32, enc32, false);
impl_mean!(Geometric, f64, enc64, true);
impl_mean!(Geometric, f32, enc32, true);
impl_mean!(Harmonic, f64, enc64, true);
impl_mean!(Harmonic, f32, enc32, true);

impl St for Paired<f64> {
    fn new() -> Self {
        Paired::default()
    }
    fn add(&mut self, x: f64, y: f64, _flag: bool) -> Result<(), String> {
        self.append_pair(x, y).map_err(|e| format!("{e:?}"))
    }
    fn merge(&mut self, other: Self, assign: bool) {
        if assign {
            *self += other;
        } else {
            *self = self.clone() + other;
        }
    }
    fn count(&self) -> usize {
        self.sample_count()
    }
    fn observe(&self, levels: &[(u8, f64)]) -> Vec<u64> {
        let mut v = vec![self.sample_count() as u64];
        if self.sample_count() >= 2 {
            v.push(self.sample_mean().to_bits());
            v.push(self.sample_sem().to_bits());
            for &(k, l) in levels {
                v.extend(enc64(self.ci_mean(conf(k, l))));
            }
        }
        v
    }
}
impl St for Unpaired<f64> {
    fn new() -> Self {
        Unpaired::default()
    }
    fn add(&mut self, x: f64, y: f64, flag: bool) -> Result<(), String> {
        if flag { self.append_a(x) } else { self.append_b(y) }.map_err(|e| format!("{e:?}"))
    }
    fn merge(&mut self, other: Self, assign: bool) {
        if assign {
            *self += other;
        } else {
            *self = self.clone() + other;
        }
    }
    fn count(&self) -> usize {
        self.stats_a().sample_count() + self.stats_b().sample_count()
    }
    fn observe(&self, levels: &[(u8, f64)]) -> Vec<u64> {
        let (a, b) = (self.stats_a(), self.stats_b());
        let mut v = vec![a.sample_count() as u64, b.sample_count() as u64];
        if a.sample_count() >= 2 && b.sample_count() >= 2 {
            v.push(a.sample_mean().to_bits());
            v.push(b.sample_mean().to_bits());
            for &(k, l) in levels {
                v.extend(enc64(self.ci_mean(conf(k, l))));
            }
        }
        v
    }
}
impl St for proportion::Stats {
    fn new() -> Self {
        proportion::Stats::default()
    }
    fn add(&mut self, _x: f64, _y: f64, flag: bool) -> Result<(), String> {
        if flag {
            self.add_success()
        } else {
            self.add_failure()
        }
        Ok(())
    }
    fn merge(&mut self, other: Self, assign: bool) {
        if assign {
            *self += other;
        } else {
            *self = *self + other;
        }
    }
    fn count(&self) -> usize {
        self.population()
    }
    fn observe(&self, levels: &[(u8, f64)]) -> Vec<u64> {
        let mut v = vec![self.population() as u64, self.successes() as u64, self.is_significant() as u64];
        for &(k, l) in levels {
            v.extend(enc64(self.ci(conf(k, l))));
        }
        v
    }
}

fn apply<S: St>(s: &mut S, steps: &[Step]) -> Result<(), String> {
    for st in steps {
        match st {
            Step::Append(x, y, f) => s.add(*x, *y, *f)?,
            Step::Extend(v) => {
                for (x, y, f) in v {
                    s.add(*x, *y, *f)?;
                }
            }
            Step::Double(k) => {
                // keep counts far below usize::MAX: a state that has already grown is not doubled again
                for _ in 0..(*k).min(40) {
                    if s.count() as u64 >= (1u64 << 40) {
                        break;
                    }
                    let c = s.clone();
                    s.merge(c, true);
                }
            }
            Step::Merge(v, assign) => {
                let mut o = S::new();
                for (x, y, f) in v {
                    o.add(*x, *y, *f)?;
                }
                s.merge(o, *assign);
            }
        }
    }
    Ok(())
}

fn roundtrips<T: Serialize + DeserializeOwned + PartialEq + Debug>(what: &str, v: &T) -> Result<(T, T), engine::Fail> {
    let js = serde_json::to_string(v).map_err(|e| engine::Fail { sig: format!("C20/{what}/json_serialize"), msg: e.to_string() })?;
    let back_j: T = serde_json::from_str(&js).map_err(|e| engine::Fail { sig: format!("C20/{what}/json_deserialize"), msg: format!("{e} in {js}") })?;
    let mut buf = Vec::new();
    ciborium::ser::into_writer(v, &mut buf).map_err(|e| engine::Fail { sig: format!("C20/{what}/cbor_serialize"), msg: e.to_string() })?;
    let back_c: T = ciborium::de::from_reader(&buf[..]).map_err(|e| engine::Fail { sig: format!("C20/{what}/cbor_deserialize"), msg: e.to_string() })?;
    // also through the self-describing value model of each format
    let jv: Value = serde_json::to_value(v).map_err(|e| engine::Fail { sig: format!("C20/{what}/json_serialize"), msg: e.to_string() })?;
    let back_v: T = serde_json::from_value(jv).map_err(|e| engine::Fail { sig: format!("C20/{what}/json_deserialize"), msg: e.to_string() })?;
    ensure!(&back_v == v, format!("C20/{what}/json_value_roundtrip"), "{v:?} -> serde_json::Value -> {back_v:?}");
    // and through a compact, non-self-describing format (data model of bincode / postcard; compact.rs): fields by
    // position, variants by index, nothing skipped, nothing inspected
    let bytes = compact::to_bytes(v).map_err(|e| engine::Fail { sig: format!("C20/{what}/compact_serialize"), msg: format!("{e} (value {v:?})") })?;
    let back_b: T = compact::from_bytes(&bytes).map_err(|e| engine::Fail { sig: format!("C20/{what}/compact_deserialize"), msg: format!("{e} ({} bytes written for {v:?})", bytes.len()) })?;
    ensure!(&back_b == v && format!("{back_b:?}") == format!("{v:?}"), format!("C20/{what}/compact/not_equal"), "restored {back_b:?} != original {v:?} through the compact format");
    Ok((back_j, back_c))
}

fn state_case<S: St>(c: &Case, obs: &mut Obs) -> PResult {
    let ty = c.ty.as_str();
    let mut s = S::new();
    apply(&mut s, &c.prefix).map_err(|e| engine::Fail { sig: format!("C20/{ty}/op_failed"), msg: e })?;
    obs.eval();
    let (j, cb) = roundtrips(ty, &s)?;
    let dbg = format!("{s:?}");
    let o0 = s.observe(&c.levels);
    for (fmt, r) in [("json", j), ("cbor", cb)] {
        ensure!(r == s, format!("C20/{ty}/{fmt}/not_equal"), "restored {r:?} != original {s:?}");
        ensure!(format!("{r:?}") == dbg, format!("C20/{ty}/{fmt}/debug_image_differs"), "restored {r:?}, original {dbg} (internal registers changed)");
        ensure!(r.observe(&c.levels) == o0, format!("C20/{ty}/{fmt}/statistics_differ"), "restored state reports different statistics / intervals than the original");
        // continue accumulating on both
        let mut a = s.clone();
        let mut b = r;
        apply(&mut a, &c.suffix).map_err(|e| engine::Fail { sig: format!("C20/{ty}/op_failed"), msg: e })?;
        apply(&mut b, &c.suffix).map_err(|e| engine::Fail { sig: format!("C20/{ty}/op_failed"), msg: e })?;
        ensure!(a == b && format!("{a:?}") == format!("{b:?}") && a.observe(&c.levels) == b.observe(&c.levels), format!("C20/{ty}/{fmt}/continuation_differs"), "after the same suffix the restored state is {b:?}, the original {a:?}");
    }
    {
        // constant or nearly constant sample: relative spread of the observations below 2^-30
        let mut vals: Vec<f64> = vec![];
        for st in &c.prefix {
            match st {
                Step::Append(x, _, _) => vals.push(*x),
                Step::Extend(v) | Step::Merge(v, _) => vals.extend(v.iter().map(|o| o.0)),
                _ => {}
            }
        }
        if vals.len() >= 3 {
            let (lo, hi) = vals.iter().fold((f64::INFINITY, f64::NEG_INFINITY), |(l, h), x| (l.min(*x), h.max(*x)));
            if (hi - lo).abs() <= hi.abs().max(lo.abs()) * (2f64).powi(-30) {
                obs.class("state-of-(nearly)-constant-sample");
            }
        }
    }
    let nz = dbg.split("compensation: ").skip(1).any(|t| !(t.starts_with("0.0") || t.starts_with("-0.0")));
    obs.class(&format!("state/{ty}"));
    if s.count() as u64 >= (1u64 << 32) {
        obs.class("state-with-count>=2^32");
    }
    if nz {
        obs.class("state-with-nonzero-compensation");
    }
    if s.count() >= 3 && (nz || ty == "proportion::Stats") {
        obs.nontrivial(&serde_json::to_string(c).unwrap_or_default());
    }
    if obs.wants_sample(&format!("state/{ty}")) {
        obs.sample(&format!("state/{ty}"), || json!({"type": ty, "observations": s.count(), "json": serde_json::to_string(&s).unwrap_or_default(), "nonzero_compensation": nz, "suffix_ops": c.suffix.len()}));
    }
    Ok(())
}

pub fn case(c: &Case, obs: &mut Obs) -> PResult {
    match c.ty.as_str() {
        "Arithmetic<f64>" => state_case::<Arithmetic<f64>>(c, obs),
        "Arithmetic<f32>" => state_case::<Arithmetic<f32>>(c, obs),
        "Geometric<f64>" => state_case::<Geometric<f64>>(c, obs),
        "Geometric<f32>" => state_case::<Geometric<f32>>(c, obs),
        "Harmonic<f64>" => state_case::<Harmonic<f64>>(c, obs),
        "Harmonic<f32>" => state_case::<Harmonic<f32>>(c, obs),
        "Paired<f64>" => state_case::<Paired<f64>>(c, obs),
        "Unpaired<f64>" => state_case::<Unpaired<f64>>(c, obs),
        "proportion::Stats" => state_case::<proportion::Stats>(c, obs),
        t => engine::fail("INFRA/harness_panic", format!("unknown type {t}")),
    }
}
pub const TYPES: [&str; 9] = ["Arithmetic<f64>", "Arithmetic<f32>", "Geometric<f64>", "Geometric<f32>", "Harmonic<f64>", "Harmonic<f32>", "Paired<f64>", "Unpaired<f64>", "proportion::Stats"];

#[derive(Clone, Debug, Serialize, Deserialize)]
pub struct ValueCase {
    pub kind: u8,
    pub level_bits: u64,
    pub f: (f64, f64),
    pub i: (i32, i32),
    pub s: (String, String),
}
pub fn value_case(c: &ValueCase, obs: &mut Obs) -> PResult {
    obs.evals(4);
    // Confidence constructed through the constructors: level in (0,1)
    let l = f64::from_bits(c.level_bits);
    if l > 0.0 && l < 1.0 {
        let cf = conf(c.kind, l);
        let (j, cb) = roundtrips("Confidence", &cf)?;
        for (fmt, r) in [("json", j), ("cbor", cb)] {
            ensure!(r == cf && r.level().to_bits() == l.to_bits() && r.kind() == cf.kind() && format!("{r:?}") == format!("{cf:?}"), format!("C20/Confidence/{fmt}/not_equal"), "restored {r:?} != original {cf:?}");
        }
        obs.class(&format!("Confidence/{}", cf.kind()));
        if c.kind % 3 != 0 || l != 0.95 {
            obs.nontrivial(&("conf", c.kind % 3, c.level_bits));
        }
    }
    fn mk<T: PartialOrd + Clone>(kind: u8, a: T, b: T) -> Interval<T> {
        let (lo, hi) = if a <= b { (a, b) } else { (b, a) };
        match kind % 3 {
            0 => Interval::new(lo, hi).unwrap(),
            1 => Interval::new_upper(lo),
            _ => Interval::new_lower(hi),
        }
    }
    let kn = ["two", "upper", "lower"][(c.kind % 3) as usize];
    // degenerate two-sided intervals [x, x] are legitimate values (constant samples, tied quantiles)
    {
        let d = Interval::new(c.i.0, c.i.0).unwrap();
        let (j, cb) = roundtrips("Interval<i32>", &d)?;
        ensure!(j == d && cb == d, "C20/Interval<i32>/degenerate", "restored {j:?} / {cb:?} != original {d:?}");
        if c.f.0.is_finite() {
            let d = Interval::new(c.f.0, c.f.0).unwrap();
            let (j, cb) = roundtrips("Interval<f64>", &d)?;
            ensure!(j == d && cb == d, "C20/Interval<f64>/degenerate", "restored {j:?} / {cb:?} != original {d:?}");
        }
        let d = Interval::new(c.s.0.clone(), c.s.0.clone()).unwrap();
        let (j, cb) = roundtrips("Interval<String>", &d)?;
        ensure!(j == d && cb == d, "C20/Interval<String>/degenerate", "restored {j:?} / {cb:?} != original {d:?}");
        obs.class("Interval/degenerate");
    }
    if c.f.0.is_finite() && c.f.1.is_finite() {
        let i = mk(c.kind, c.f.0, c.f.1);
        let (j, cb) = roundtrips("Interval<f64>", &i)?;
        for (fmt, r) in [("json", j), ("cbor", cb)] {
            let same = match (&r, &i) {
                (Interval::TwoSided(a, b), Interval::TwoSided(x, y)) => a.to_bits() == x.to_bits() && b.to_bits() == y.to_bits(),
                (Interval::UpperOneSided(a), Interval::UpperOneSided(x)) | (Interval::LowerOneSided(a), Interval::LowerOneSided(x)) => a.to_bits() == x.to_bits(),
                _ => false,
            };
            ensure!(same && r == i, format!("C20/Interval<f64>/{fmt}/not_equal"), "restored {r:?} != original {i:?}");
        }
        obs.class(&format!("Interval<f64>/{kn}"));
    }
    let i = mk(c.kind, c.i.0, c.i.1);
    let (j, cb) = roundtrips("Interval<i32>", &i)?;
    ensure!(j == i && cb == i, "C20/Interval<i32>/not_equal", "restored {j:?} / {cb:?} != original {i:?}");
    let i = mk(c.kind, c.s.0.clone(), c.s.1.clone());
    let (j, cb) = roundtrips("Interval<String>", &i)?;
    ensure!(j == i && cb == i, "C20/Interval<String>/not_equal", "restored {j:?} / {cb:?} != original {i:?}");
    obs.class(&format!("Interval<i32,String>/{kn}"));
    if c.kind % 3 != 0 {
        obs.nontrivial(&("interval", c.kind % 3, c.i, &c.s, c.f.0.to_bits(), c.f.1.to_bits()));
    }
    Ok(())
}

// generators: values that leave non-zero compensation terms (increments such as 0.1 after a large value)
fn obs_value() -> impl Strategy<Value = (f64, f64, bool)> {
    let x = prop_oneof![
        3 => prop::sample::select(vec![0.1, 1.1, 3.3, 123.456, 0.7, 1e6 + 0.1, 2.5e-3, 7.0]),
        3 => (1u32..(1 << 24), -12i32..=12).prop_map(|(m, e)| m as f64 / (1 << 20) as f64 * (2f64).powi(e)),
        1 => (1u32..1000).prop_map(|m| -(m as f64) / 7.0),
    ];
    (x.clone(), x, any::<bool>())
}
fn step() -> impl Strategy<Value = Step> {
    prop_oneof![
        4 => obs_value().prop_map(|(x, y, f)| Step::Append(x, y, f)),
        3 => prop::collection::vec(obs_value(), 0..10).prop_map(Step::Extend),
        2 => (prop::collection::vec(obs_value(), 0..8), any::<bool>()).prop_map(|(v, a)| Step::Merge(v, a)),
        1 => prop_oneof![0u8..4, 28u8..36].prop_map(Step::Double),
    ]
}
fn level() -> impl Strategy<Value = f64> {
    prop_oneof![prop::sample::select(vec![0.5, 0.9, 0.95, 0.99, 0.001, 0.9999]), (1u32..9999).prop_map(|i| i as f64 / 10000.0)]
}
/// replace every observation by one value (mode 1) or by values within 2^-36 of it (mode 2): states of constant or
/// nearly constant samples (zero or rounding-level variance) are legitimate states and must round-trip as well
fn flatten(steps: Vec<Step>, mode: u8, v: (f64, f64, bool)) -> Vec<Step> {
    if mode == 0 {
        return steps;
    }
    let mut k = 0u32;
    let mut f = |o: (f64, f64, bool)| -> (f64, f64, bool) {
        k += 1;
        let j = if mode == 2 { 1.0 + (k.wrapping_mul(2654435761u32) >> 24) as f64 * (2f64).powi(-44) } else { 1.0 };
        if mode == 3 {
            // every observation huge (1e23 … 7e30): the squares of the reciprocals underflow in f32, the sums of squares
            // are of order 1e60 in f64 (inf in f32 is avoided: |x| < 1e31, and pairs are kept apart by a factor 2)
            let h = 1e23 * (1.0 + (k % 7) as f64) * if k % 3 == 0 { 1e7 } else { 1.0 };
            return (h, h * 0.5, o.2);
        }
        (v.0 * j, v.1 * j, o.2)
    };
    steps
        .into_iter()
        .map(|s| match s {
            Step::Append(x, y, b) => {
                let (x, y, b) = f((x, y, b));
                Step::Append(x, y, b)
            }
            Step::Extend(v) => Step::Extend(v.into_iter().map(&mut f).collect()),
            Step::Merge(v, a) => Step::Merge(v.into_iter().map(&mut f).collect(), a),
            o => o,
        })
        .collect()
}
fn case_strategy() -> impl Strategy<Value = Case> {
    (0usize..TYPES.len(), prop::collection::vec(step(), 1..12), prop::collection::vec(step(), 0..8), prop::collection::vec((0u8..3, level()), 1..4), prop_oneof![12 => Just(0u8), 2 => Just(1u8), 2 => Just(2u8), 1 => Just(3u8)], obs_value(), any::<bool>())
        .prop_map(|(t, prefix, suffix, levels, mode, v, also_suffix)| {
            // huge observations only for the types that transform them first (their squares overflow an f32 register of
            // the arithmetic mean to inf, which JSON cannot carry — a property of the format, not of the crate)
            let mode = if mode == 3 && !(TYPES[t].starts_with("Harmonic") || TYPES[t].starts_with("Geometric")) { 0 } else { mode };
            let also_suffix = also_suffix || mode == 3;
            Case { ty: TYPES[t].to_string(), prefix: flatten(prefix, mode, v), suffix: if also_suffix { flatten(suffix, mode, v) } else { suffix }, levels }
        })
}
fn value_strategy() -> impl Strategy<Value = ValueCase> {
    let lv = prop_oneof![level().prop_map(|l| l.to_bits()), (1u64..(1u64 << 52)).prop_map(|m| (m as f64 / (1u64 << 52) as f64).to_bits()), Just(5e-324f64.to_bits()), Just(0.9999999999999999f64.to_bits())];
    let f = prop_oneof![any::<u64>().prop_map(f64::from_bits).prop_filter("finite", |x| x.is_finite()), (-1000i32..1000).prop_map(|i| i as f64 / 8.0), prop::sample::select(vec![0.0, -0.0, f64::MAX, f64::MIN_POSITIVE, 5e-324, 0.1])];
    (0u8..3, lv, (f.clone(), f), (any::<i32>(), any::<i32>()), ("[ -~]{0,8}", "\\PC{0,6}")).prop_map(|(kind, level_bits, f, i, s)| ValueCase { kind, level_bits, f, i, s })
}

fn main() {
    let args: Vec<String> = std::env::args().skip(1).collect();
    let mut tier = Tier::Quick;
    let mut builds: Option<String> = None;
    let mut replay: Option<String> = None;
    let mut i = 0;
    while i < args.len() {
        match args[i].as_str() {
            "--tier" => {
                i += 1;
                tier = if args.get(i).map(|s| s.as_str()) == Some("thorough") { Tier::Thorough } else { Tier::Quick };
            }
            "--builds" => {
                i += 1;
                builds = args.get(i).cloned();
            }
            "--replay" => {
                i += 1;
                replay = args.get(i).cloned();
            }
            _ => {}
        }
        i += 1;
    }
    let seed = std::env::var("VERIF_SEED").ok().and_then(|s| s.trim().parse::<i128>().ok()).map(|v| v as u64).unwrap_or(engine::DEFAULT_SEED);
    engine::install_panic_hook();
    let build_rows: Vec<Value> = builds
        .as_ref()
        .and_then(|p| std::fs::read_to_string(p).ok())
        .map(|t| t.lines().filter_map(|l| serde_json::from_str::<Value>(l).ok()).collect())
        .unwrap_or_default();

    if let Some(path) = replay {
        let v: Value = serde_json::from_str(&std::fs::read_to_string(&path).unwrap_or_default()).unwrap_or(Value::Null);
        let sub = v["sub"].as_str().unwrap_or("");
        let mut obs = Obs::new(std::sync::Arc::new(engine::Known::default()));
        let r: Option<PResult> = match sub {
            "state" => serde_json::from_value::<Case>(v["input"].clone()).ok().map(|c| case(&c, &mut obs)),
            "value" => serde_json::from_value::<ValueCase>(v["input"].clone()).ok().map(|c| value_case(&c, &mut obs)),
            // this binary exists, so every listed state type is serialisable on the current tree
            "not_serializable" => Some(Ok(())),
            "feature_build" => {
                let name = v["input"]["feature_set"].as_str().unwrap_or("");
                let row = build_rows.iter().find(|r| r["feature_set"] == name);
                Some(match row {
                    Some(r) if r["ok"] == true => Ok(()),
                    Some(r) => Err(engine::Fail { sig: format!("C20/feature_build/{name}"), msg: format!("{}", r["errors"]) }),
                    None => Ok(()),
                })
            }
            _ => None,
        };
        match r {
            Some(Ok(())) => {
                println!("replay C20: property holds on this input ({sub})");
                std::process::exit(0)
            }
            Some(Err(f)) => {
                println!("replay C20: {}: {}", f.sig, f.msg);
                println!("VIOLATION property=C20 replay={path}");
                std::process::exit(1)
            }
            None => {
                println!("INCONCLUSIVE: cannot replay {path}");
                std::process::exit(2)
            }
        }
    }

    let mut run = Run::new("C20", tier, seed);
    run.technique = "enumeration of the five advertised feature sets (each built from /repo's working tree) and of the Serialize/Deserialize bounds of every listed type under std+serde alone (probe crate) + proptest random search with shrinking over accumulation histories: serialise (JSON, CBOR) -> deserialise -> compare -> continue accumulating on both".into();
    run.rule = "feature sets {default, std, std+approx, std+serde, all} built with cargo; histories (append / extend / merge by + and +=, values chosen to leave non-zero compensation terms) for Arithmetic, Geometric, Harmonic (f32/f64), Paired, Unpaired, proportion::Stats, then a generated suffix applied to the original and the restored state; Confidence and Interval<f64|i32|String> of all kinds; non-trivial = state with >= 3 observations and a non-zero compensation term (or a proportion state), a one-sided interval or a non-default confidence".into();
    // feature builds
    for row in &build_rows {
        let name = row["feature_set"].as_str().unwrap_or("?").to_string();
        run.obs.eval();
        run.obs.class(&format!("feature_build/{name}"));
        run.obs.nontrivial(&("build", &name));
        run.obs.sample(&format!("feature_build/{name}"), || json!({"feature_set": name, "cargo_args": row["cargo_args"], "ok": row["ok"], "seconds": row["seconds"]}));
        if row["ok"] != true {
            let f = engine::Fail { sig: format!("C20/feature_build/{name}"), msg: format!("cargo build {} fails: {}", row["cargo_args"], row["errors"]) };
            let command = row["command"].as_str().map(|s| s.to_string()).unwrap_or_else(|| format!("cd /repo && cargo build --offline --lib {}", row["cargo_args"].as_str().unwrap_or("")));
            run.obs.report("feature_build", || json!({"feature_set": name, "command": command, "compiler_output": row["log_tail"]}), &f);
        }
    }
    if build_rows.len() == 6 {
        run.exhaustive_parts.push("all five advertised feature sets, and the trait bounds of every listed type under std+serde (probe crate)".into());
    } else {
        run.infra_errors.push(format!("expected 6 build rows (5 feature sets + the std+serde trait probe), got {}", build_rows.len()));
    }
    let (n, shards) = match tier {
        Tier::Quick => (40_000u32, 32usize),
        Tier::Thorough => (3_000_000, 256),
    };
    let sd = run.seed_for("state", 0);
    run.par(shards, |s, obs| {
        engine::prop_on(obs, "state", n / shards as u32, engine::mix(sd, "shard", s as u64), case_strategy(), case);
    });
    run.prop("value", n / 2, value_strategy(), value_case);
    for t in TYPES {
        run.require_class(&format!("state/{t}"));
    }
    for c in ["Interval/degenerate", "state-of-(nearly)-constant-sample", "state-with-count>=2^32", "state-with-nonzero-compensation", "Interval<f64>/upper", "Interval<i32,String>/lower", "Confidence/upper one-sided", "feature_build/std_serde", "feature_build/all", "feature_build/std_serde_traits"] {
        run.require_class(c);
    }
    run.assumptions.push("serde_json is built with float_roundtrip (otherwise its parser may be 1 ulp off and the harness, not the crate, would fail); CBOR via ciborium carries floats bit-exactly".into());
    run.assumptions.push("quantile::Stats carries no serde derive and is not among the types the property lists".into());
    std::process::exit(run.finish());
}
