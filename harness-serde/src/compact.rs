//! A minimal compact, non-self-describing serde format in the data model of bincode 1.x / postcard: structs and
//! tuples are bare sequences of their fields, enum variants are indices, sequences and maps must announce their
//! length, and nothing can be skipped or inspected (`deserialize_any`, identifiers and `ignored_any` are errors).
//! Derived impls with `flatten`, `untagged`, `skip_serializing_if`, `tag = ...` and the like round-trip through
//! JSON / CBOR but not through formats of this family — which users of the crate's `serde` feature may well use.

use serde::de::{self, DeserializeSeed, EnumAccess, IntoDeserializer, MapAccess, SeqAccess, VariantAccess, Visitor};
use serde::ser::{self, Serialize};
use std::fmt;

#[derive(Debug)]
pub struct Error(pub String);
impl fmt::Display for Error {
    fn fmt(&self, f: &mut fmt::Formatter<'_>) -> fmt::Result {
        f.write_str(&self.0)
    }
}
impl std::error::Error for Error {}
impl ser::Error for Error {
    fn custom<T: fmt::Display>(msg: T) -> Self {
        Error(msg.to_string())
    }
}
impl de::Error for Error {
    fn custom<T: fmt::Display>(msg: T) -> Self {
        Error(msg.to_string())
    }
}
type Res<T> = Result<T, Error>;

pub fn to_bytes<T: Serialize>(v: &T) -> Res<Vec<u8>> {
    let mut s = Ser { out: vec![] };
    v.serialize(&mut s)?;
    Ok(s.out)
}
pub fn from_bytes<'a, T: de::Deserialize<'a>>(b: &'a [u8]) -> Res<T> {
    let mut d = De { input: b };
    let v = T::deserialize(&mut d)?;
    if !d.input.is_empty() {
        return Err(Error(format!("{} trailing bytes", d.input.len())));
    }
    Ok(v)
}

pub struct Ser {
    out: Vec<u8>,
}
impl Ser {
    fn len(&mut self, n: usize) {
        self.out.extend_from_slice(&(n as u64).to_le_bytes());
    }
}
macro_rules! ser_num {
    ($($f:ident $t:ty),*) => { $( fn $f(self, v: $t) -> Res<()> { self.out.extend_from_slice(&v.to_le_bytes()); Ok(()) } )* };
}
impl<'a> ser::Serializer for &'a mut Ser {
    type Ok = ();
    type Error = Error;
    type SerializeSeq = Self;
    type SerializeTuple = Self;
    type SerializeTupleStruct = Self;
    type SerializeTupleVariant = Self;
    type SerializeMap = Self;
    type SerializeStruct = Self;
    type SerializeStructVariant = Self;
    fn serialize_bool(self, v: bool) -> Res<()> {
        self.out.push(v as u8);
        Ok(())
    }
    ser_num!(serialize_i8 i8, serialize_i16 i16, serialize_i32 i32, serialize_i64 i64, serialize_i128 i128, serialize_u8 u8, serialize_u16 u16, serialize_u32 u32, serialize_u64 u64, serialize_u128 u128);
    fn serialize_f32(self, v: f32) -> Res<()> {
        self.out.extend_from_slice(&v.to_bits().to_le_bytes());
        Ok(())
    }
    fn serialize_f64(self, v: f64) -> Res<()> {
        self.out.extend_from_slice(&v.to_bits().to_le_bytes());
        Ok(())
    }
    fn serialize_char(self, v: char) -> Res<()> {
        self.out.extend_from_slice(&(v as u32).to_le_bytes());
        Ok(())
    }
    fn serialize_str(self, v: &str) -> Res<()> {
        self.len(v.len());
        self.out.extend_from_slice(v.as_bytes());
        Ok(())
    }
    fn serialize_bytes(self, v: &[u8]) -> Res<()> {
        self.len(v.len());
        self.out.extend_from_slice(v);
        Ok(())
    }
    fn serialize_none(self) -> Res<()> {
        self.out.push(0);
        Ok(())
    }
    fn serialize_some<T: ?Sized + Serialize>(self, v: &T) -> Res<()> {
        self.out.push(1);
        v.serialize(self)
    }
    fn serialize_unit(self) -> Res<()> {
        Ok(())
    }
    fn serialize_unit_struct(self, _: &'static str) -> Res<()> {
        Ok(())
    }
    fn serialize_unit_variant(self, _: &'static str, idx: u32, _: &'static str) -> Res<()> {
        self.out.extend_from_slice(&idx.to_le_bytes());
        Ok(())
    }
    fn serialize_newtype_struct<T: ?Sized + Serialize>(self, _: &'static str, v: &T) -> Res<()> {
        v.serialize(self)
    }
    fn serialize_newtype_variant<T: ?Sized + Serialize>(self, _: &'static str, idx: u32, _: &'static str, v: &T) -> Res<()> {
        self.out.extend_from_slice(&idx.to_le_bytes());
        v.serialize(self)
    }
    fn serialize_seq(self, len: Option<usize>) -> Res<Self> {
        match len {
            Some(n) => {
                self.len(n);
                Ok(self)
            }
            None => Err(Error("a sequence must announce its length".into())),
        }
    }
    fn serialize_tuple(self, _: usize) -> Res<Self> {
        Ok(self)
    }
    fn serialize_tuple_struct(self, _: &'static str, _: usize) -> Res<Self> {
        Ok(self)
    }
    fn serialize_tuple_variant(self, _: &'static str, idx: u32, _: &'static str, _: usize) -> Res<Self> {
        self.out.extend_from_slice(&idx.to_le_bytes());
        Ok(self)
    }
    fn serialize_map(self, len: Option<usize>) -> Res<Self> {
        match len {
            Some(n) => {
                self.len(n);
                Ok(self)
            }
            None => Err(Error("a map must announce its length (a struct serialised as a map of unknown size, e.g. through #[serde(flatten)], cannot be written)".into())),
        }
    }
    fn serialize_struct(self, _: &'static str, _: usize) -> Res<Self> {
        Ok(self)
    }
    fn serialize_struct_variant(self, _: &'static str, idx: u32, _: &'static str, _: usize) -> Res<Self> {
        self.out.extend_from_slice(&idx.to_le_bytes());
        Ok(self)
    }
    fn is_human_readable(&self) -> bool {
        false
    }
}
macro_rules! ser_compound {
    ($tr:ident, $f:ident) => {
        impl<'a> ser::$tr for &'a mut Ser {
            type Ok = ();
            type Error = Error;
            fn $f<T: ?Sized + Serialize>(&mut self, v: &T) -> Res<()> {
                v.serialize(&mut **self)
            }
            fn end(self) -> Res<()> {
                Ok(())
            }
        }
    };
}
ser_compound!(SerializeSeq, serialize_element);
ser_compound!(SerializeTuple, serialize_element);
ser_compound!(SerializeTupleStruct, serialize_field);
ser_compound!(SerializeTupleVariant, serialize_field);
impl<'a> ser::SerializeMap for &'a mut Ser {
    type Ok = ();
    type Error = Error;
    fn serialize_key<T: ?Sized + Serialize>(&mut self, k: &T) -> Res<()> {
        k.serialize(&mut **self)
    }
    fn serialize_value<T: ?Sized + Serialize>(&mut self, v: &T) -> Res<()> {
        v.serialize(&mut **self)
    }
    fn end(self) -> Res<()> {
        Ok(())
    }
}
impl<'a> ser::SerializeStruct for &'a mut Ser {
    type Ok = ();
    type Error = Error;
    fn serialize_field<T: ?Sized + Serialize>(&mut self, _: &'static str, v: &T) -> Res<()> {
        v.serialize(&mut **self)
    }
    fn skip_field(&mut self, key: &'static str) -> Res<()> {
        Err(Error(format!("field `{key}` skipped: a compact format cannot omit fields")))
    }
    fn end(self) -> Res<()> {
        Ok(())
    }
}
impl<'a> ser::SerializeStructVariant for &'a mut Ser {
    type Ok = ();
    type Error = Error;
    fn serialize_field<T: ?Sized + Serialize>(&mut self, _: &'static str, v: &T) -> Res<()> {
        v.serialize(&mut **self)
    }
    fn skip_field(&mut self, key: &'static str) -> Res<()> {
        Err(Error(format!("field `{key}` skipped: a compact format cannot omit fields")))
    }
    fn end(self) -> Res<()> {
        Ok(())
    }
}

pub struct De<'de> {
    input: &'de [u8],
}
impl<'de> De<'de> {
    fn take(&mut self, n: usize) -> Res<&'de [u8]> {
        if self.input.len() < n {
            return Err(Error("unexpected end of input".into()));
        }
        let (a, b) = self.input.split_at(n);
        self.input = b;
        Ok(a)
    }
    fn len(&mut self) -> Res<usize> {
        let b = self.take(8)?;
        let n = u64::from_le_bytes(b.try_into().unwrap());
        if n > (1 << 32) {
            return Err(Error(format!("implausible length {n}")));
        }
        Ok(n as usize)
    }
    fn u32(&mut self) -> Res<u32> {
        Ok(u32::from_le_bytes(self.take(4)?.try_into().unwrap()))
    }
}
macro_rules! de_num {
    ($($f:ident $v:ident $t:ty),*) => { $( fn $f<V: Visitor<'de>>(self, vis: V) -> Res<V::Value> {
        let b = self.take(std::mem::size_of::<$t>())?;
        vis.$v(<$t>::from_le_bytes(b.try_into().unwrap()))
    } )* };
}
impl<'de, 'a> de::Deserializer<'de> for &'a mut De<'de> {
    type Error = Error;
    fn deserialize_any<V: Visitor<'de>>(self, _: V) -> Res<V::Value> {
        Err(Error("this format is not self-describing (deserialize_any)".into()))
    }
    fn deserialize_bool<V: Visitor<'de>>(self, vis: V) -> Res<V::Value> {
        match self.take(1)?[0] {
            0 => vis.visit_bool(false),
            1 => vis.visit_bool(true),
            x => Err(Error(format!("invalid bool {x}"))),
        }
    }
    de_num!(deserialize_i8 visit_i8 i8, deserialize_i16 visit_i16 i16, deserialize_i32 visit_i32 i32, deserialize_i64 visit_i64 i64, deserialize_i128 visit_i128 i128, deserialize_u8 visit_u8 u8, deserialize_u16 visit_u16 u16, deserialize_u32 visit_u32 u32, deserialize_u64 visit_u64 u64, deserialize_u128 visit_u128 u128);
    fn deserialize_f32<V: Visitor<'de>>(self, vis: V) -> Res<V::Value> {
        let b = self.take(4)?;
        vis.visit_f32(f32::from_bits(u32::from_le_bytes(b.try_into().unwrap())))
    }
    fn deserialize_f64<V: Visitor<'de>>(self, vis: V) -> Res<V::Value> {
        let b = self.take(8)?;
        vis.visit_f64(f64::from_bits(u64::from_le_bytes(b.try_into().unwrap())))
    }
    fn deserialize_char<V: Visitor<'de>>(self, vis: V) -> Res<V::Value> {
        let c = self.u32()?;
        vis.visit_char(char::from_u32(c).ok_or_else(|| Error(format!("invalid char {c}")))?)
    }
    fn deserialize_str<V: Visitor<'de>>(self, vis: V) -> Res<V::Value> {
        let n = self.len()?;
        let b = self.take(n)?;
        vis.visit_borrowed_str(std::str::from_utf8(b).map_err(|e| Error(e.to_string()))?)
    }
    fn deserialize_string<V: Visitor<'de>>(self, vis: V) -> Res<V::Value> {
        self.deserialize_str(vis)
    }
    fn deserialize_bytes<V: Visitor<'de>>(self, vis: V) -> Res<V::Value> {
        let n = self.len()?;
        vis.visit_borrowed_bytes(self.take(n)?)
    }
    fn deserialize_byte_buf<V: Visitor<'de>>(self, vis: V) -> Res<V::Value> {
        self.deserialize_bytes(vis)
    }
    fn deserialize_option<V: Visitor<'de>>(self, vis: V) -> Res<V::Value> {
        match self.take(1)?[0] {
            0 => vis.visit_none(),
            1 => vis.visit_some(self),
            x => Err(Error(format!("invalid option tag {x}"))),
        }
    }
    fn deserialize_unit<V: Visitor<'de>>(self, vis: V) -> Res<V::Value> {
        vis.visit_unit()
    }
    fn deserialize_unit_struct<V: Visitor<'de>>(self, _: &'static str, vis: V) -> Res<V::Value> {
        vis.visit_unit()
    }
    fn deserialize_newtype_struct<V: Visitor<'de>>(self, _: &'static str, vis: V) -> Res<V::Value> {
        vis.visit_newtype_struct(self)
    }
    fn deserialize_seq<V: Visitor<'de>>(self, vis: V) -> Res<V::Value> {
        let n = self.len()?;
        vis.visit_seq(Counted { de: self, left: n })
    }
    fn deserialize_tuple<V: Visitor<'de>>(self, n: usize, vis: V) -> Res<V::Value> {
        vis.visit_seq(Counted { de: self, left: n })
    }
    fn deserialize_tuple_struct<V: Visitor<'de>>(self, _: &'static str, n: usize, vis: V) -> Res<V::Value> {
        vis.visit_seq(Counted { de: self, left: n })
    }
    fn deserialize_map<V: Visitor<'de>>(self, vis: V) -> Res<V::Value> {
        let n = self.len()?;
        vis.visit_map(Counted { de: self, left: n })
    }
    fn deserialize_struct<V: Visitor<'de>>(self, _: &'static str, fields: &'static [&'static str], vis: V) -> Res<V::Value> {
        vis.visit_seq(Counted { de: self, left: fields.len() })
    }
    fn deserialize_enum<V: Visitor<'de>>(self, _: &'static str, _: &'static [&'static str], vis: V) -> Res<V::Value> {
        vis.visit_enum(self)
    }
    fn deserialize_identifier<V: Visitor<'de>>(self, _: V) -> Res<V::Value> {
        Err(Error("this format carries no field or variant names (deserialize_identifier)".into()))
    }
    fn deserialize_ignored_any<V: Visitor<'de>>(self, _: V) -> Res<V::Value> {
        Err(Error("this format cannot skip a value of unknown type (deserialize_ignored_any)".into()))
    }
    fn is_human_readable(&self) -> bool {
        false
    }
}
struct Counted<'a, 'de> {
    de: &'a mut De<'de>,
    left: usize,
}
impl<'de, 'a> SeqAccess<'de> for Counted<'a, 'de> {
    type Error = Error;
    fn next_element_seed<T: DeserializeSeed<'de>>(&mut self, seed: T) -> Res<Option<T::Value>> {
        if self.left == 0 {
            return Ok(None);
        }
        self.left -= 1;
        seed.deserialize(&mut *self.de).map(Some)
    }
    fn size_hint(&self) -> Option<usize> {
        Some(self.left)
    }
}
impl<'de, 'a> MapAccess<'de> for Counted<'a, 'de> {
    type Error = Error;
    fn next_key_seed<K: DeserializeSeed<'de>>(&mut self, seed: K) -> Res<Option<K::Value>> {
        if self.left == 0 {
            return Ok(None);
        }
        self.left -= 1;
        seed.deserialize(&mut *self.de).map(Some)
    }
    fn next_value_seed<V: DeserializeSeed<'de>>(&mut self, seed: V) -> Res<V::Value> {
        seed.deserialize(&mut *self.de)
    }
}
impl<'de, 'a> EnumAccess<'de> for &'a mut De<'de> {
    type Error = Error;
    type Variant = Self;
    fn variant_seed<V: DeserializeSeed<'de>>(self, seed: V) -> Res<(V::Value, Self)> {
        let idx = self.u32()?;
        let v = seed.deserialize(IntoDeserializer::<Error>::into_deserializer(idx))?;
        Ok((v, self))
    }
}
impl<'de, 'a> VariantAccess<'de> for &'a mut De<'de> {
    type Error = Error;
    fn unit_variant(self) -> Res<()> {
        Ok(())
    }
    fn newtype_variant_seed<T: DeserializeSeed<'de>>(self, seed: T) -> Res<T::Value> {
        seed.deserialize(self)
    }
    fn tuple_variant<V: Visitor<'de>>(self, n: usize, vis: V) -> Res<V::Value> {
        de::Deserializer::deserialize_tuple(self, n, vis)
    }
    fn struct_variant<V: Visitor<'de>>(self, fields: &'static [&'static str], vis: V) -> Res<V::Value> {
        de::Deserializer::deserialize_tuple(self, fields.len(), vis)
    }
}
