//! Compile-time probe for C20: under the advertised feature set `std,serde` (and nothing else) a Confidence, an
//! Interval and every incremental statistics state implement Serialize and Deserialize. If a derive is gated on
//! some other feature as well, this crate does not build and c20.sh reports the compiler output.
use serde::{de::DeserializeOwned, Serialize};
use stats_ci::comparison::{Paired, Unpaired};
use stats_ci::mean::{Arithmetic, Geometric, Harmonic};
use stats_ci::{proportion, Confidence, Interval};

fn needs<T: Serialize + DeserializeOwned>() {}
/// zero-copy deserialisation of a borrowing element type (`quantile::ci` on string data returns `Interval<&str>`)
fn needs_borrowed<'de, T: Serialize + serde::Deserialize<'de>>() {}

pub fn every_listed_type_is_serialisable() {
    needs::<Confidence>();
    needs::<Interval<f64>>();
    needs::<Interval<f32>>();
    needs::<Interval<i32>>();
    needs::<Interval<usize>>();
    needs::<Interval<String>>();
    needs_borrowed::<Interval<&str>>();
    needs::<Arithmetic<f64>>();
    needs::<Arithmetic<f32>>();
    needs::<Geometric<f64>>();
    needs::<Geometric<f32>>();
    needs::<Harmonic<f64>>();
    needs::<Harmonic<f32>>();
    needs::<Paired<f64>>();
    needs::<Paired<f32>>();
    needs::<Unpaired<f64>>();
    needs::<Unpaired<f32>>();
    needs::<proportion::Stats>();
}
