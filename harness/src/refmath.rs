//! Independent distribution functions (no statrs): Student-t and normal CDF by Gauss–Legendre
//! quadrature of the density, quantiles by bracketed Newton on those CDFs, binomial pmf by
//! recurrence from the mode. Validated at start-up against mpmath tables in /verif/golden.

use std::f64::consts::PI;

// 20-point Gauss–Legendre nodes/weights on [-1,1] (positive half; symmetric)
const GL_X: [f64; 10] = [
    0.076_526_521_133_497_333_755,
    0.227_785_851_141_645_078_080,
    0.373_706_088_715_419_560_673,
    0.510_867_001_950_827_098_004,
    0.636_053_680_726_515_025_453,
    0.746_331_906_460_150_792_614,
    0.839_116_971_822_218_823_395,
    0.912_234_428_251_325_905_868,
    0.963_971_927_277_913_791_268,
    0.993_128_599_185_094_924_786,
];
const GL_W: [f64; 10] = [
    0.152_753_387_130_725_850_698,
    0.149_172_986_472_603_746_788,
    0.142_096_109_318_382_051_329,
    0.131_688_638_449_176_626_898,
    0.118_194_531_961_518_417_312,
    0.101_930_119_817_240_435_037,
    0.083_276_741_576_704_748_725,
    0.062_672_048_334_109_063_570,
    0.040_601_429_800_386_941_331,
    0.017_614_007_139_152_118_312,
];

fn gl20(f: &dyn Fn(f64) -> f64, a: f64, b: f64) -> f64 {
    let c = 0.5 * (a + b);
    let h = 0.5 * (b - a);
    let mut s = 0.0;
    for i in 0..10 {
        let dx = h * GL_X[i];
        s += GL_W[i] * (f(c - dx) + f(c + dx));
    }
    s * h
}
/// composite rule with `panels` equal panels, compensated accumulation
fn integrate(f: &dyn Fn(f64) -> f64, a: f64, b: f64, panels: usize) -> f64 {
    let mut s = 0.0;
    let mut comp = 0.0;
    let w = (b - a) / panels as f64;
    for i in 0..panels {
        let lo = a + w * i as f64;
        let hi = if i + 1 == panels { b } else { a + w * (i + 1) as f64 };
        let v = gl20(f, lo, hi) - comp;
        let t = s + v;
        comp = (t - s) - v;
        s = t;
    }
    s
}

/// R(a) = Gamma(a + 1/2) / Gamma(a), a > 0: upward recurrence to a >= 40, then the asymptotic series
pub fn gamma_ratio_half(a: f64) -> f64 {
    let mut a = a;
    let mut factor = 1.0; // R(a) = R(a+1) * a / (a + 1/2)
    while a < 40.0 {
        factor *= a / (a + 0.5);
        a += 1.0;
    }
    // Gamma(a+1/2)/Gamma(a) = sqrt(a) * (1 - 1/(8a) + 1/(128a^2) + 5/(1024a^3) - 21/(32768a^4)
    //                          - 399/(262144a^5) + 869/(4194304a^6) + 39325/(33554432a^7) ...)
    let x = 1.0 / a;
    let series = 1.0
        + x * (-1.0 / 8.0
            + x * (1.0 / 128.0
                + x * (5.0 / 1024.0
                    + x * (-21.0 / 32768.0
                        + x * (-399.0 / 262144.0 + x * (869.0 / 4194304.0 + x * (39325.0 / 33554432.0)))))));
    factor * a.sqrt() * series
}

/// Student-t density normalisation constant: Gamma((v+1)/2) / (sqrt(v*pi) * Gamma(v/2))
pub fn t_norm(v: f64) -> f64 {
    gamma_ratio_half(v / 2.0) / (v * PI).sqrt()
}
pub fn t_pdf(v: f64, t: f64) -> f64 {
    t_norm(v) * (-(0.5 * (v + 1.0)) * (t * t / v).ln_1p()).exp()
}

/// P(0 < T <= c) for c >= 0, T ~ t(v), v >= 1 (real)
fn t_half(v: f64, c: f64) -> f64 {
    debug_assert!(c >= 0.0);
    if c == 0.0 {
        return 0.0;
    }
    // substitution t = sqrt(v) tan(theta): integrand  C_v sqrt(v) cos^(v-1)(theta) on [0, theta_c]
    let theta_c = (c / v.sqrt()).atan();
    let k = t_norm(v) * v.sqrt();
    let e = v - 1.0;
    if e == 0.0 {
        return k * theta_c;
    }
    let f = move |th: f64| -> f64 {
        // ln cos = 0.5 ln(1 - sin^2): keeps relative accuracy for small theta and huge e
        let s = th.sin();
        if s * s < 0.5 {
            (e * 0.5 * (-s * s).ln_1p()).exp()
        } else {
            (e * th.cos().ln()).exp()
        }
    };
    // cos^e has an algebraic singularity at pi/2 for non-integer e: keep the regular panels at a
    // distance >= EDGE from it and cover the rest with panels graded geometrically toward pi/2,
    // in the variable u = pi/2 - theta whose lower limit atan(sqrt(v)/c) is free of cancellation
    const EDGE: f64 = 0.3;
    let theta_1 = theta_c.min(PI / 2.0 - EDGE);
    // the peak has width ~ 1/sqrt(v) in theta; one panel per 0.75 standardised units, at least 6
    let panels = ((theta_1 * v.sqrt() / 0.75).ceil() as usize).clamp(6, 4000);
    let mut total = integrate(&f, 0.0, theta_1, panels);
    if theta_c > theta_1 {
        let u_c = (v.sqrt() / c).atan();
        let g = move |u: f64| -> f64 {
            let s = u.sin();
            if s <= 0.0 {
                0.0
            } else {
                (e * s.ln()).exp()
            }
        };
        let mut hi = EDGE;
        while hi > u_c {
            let lo = (hi * 0.5).max(u_c);
            total += gl20(&g, lo, hi);
            hi = lo;
        }
    }
    k * total
}
/// Student-t CDF, real v >= 1
pub fn t_cdf(v: f64, t: f64) -> f64 {
    if t.is_nan() {
        return f64::NAN;
    }
    if t == f64::INFINITY {
        return 1.0;
    }
    if t == f64::NEG_INFINITY {
        return 0.0;
    }
    let c = t.abs();
    let upper = t_sf_pos(v, c);
    if t >= 0.0 {
        1.0 - upper
    } else {
        upper
    }
}
/// P(T > c), c >= 0, computed so that small tails keep their relative accuracy
pub fn t_sf_pos(v: f64, c: f64) -> f64 {
    // absolute accuracy ~1e-16 is what the checks need (targets <= 0.99995); no separate tail integral
    (0.5 - t_half(v, c)).max(0.0)
}
pub fn t_sf(v: f64, t: f64) -> f64 {
    if t >= 0.0 {
        t_sf_pos(v, t)
    } else {
        1.0 - t_sf_pos(v, -t)
    }
}

pub fn norm_pdf(z: f64) -> f64 {
    (-0.5 * z * z).exp() / (2.0 * PI).sqrt()
}
/// P(Z > c), c >= 0
pub fn norm_sf_pos(c: f64) -> f64 {
    let f = |z: f64| norm_pdf(z);
    if c < 0.7 {
        0.5 - integrate(&f, 0.0, c, 4)
    } else {
        // tail integral c..c+L where the remainder is < 1e-40
        let hi = (c + 14.0).max(15.0);
        let panels = (((hi - c) / 0.75).ceil() as usize).max(8);
        integrate(&f, c, hi, panels)
    }
}
pub fn norm_cdf(z: f64) -> f64 {
    if z.is_nan() {
        return f64::NAN;
    }
    if z >= 0.0 {
        1.0 - norm_sf_pos(z)
    } else {
        norm_sf_pos(-z)
    }
}
pub fn norm_sf(z: f64) -> f64 {
    norm_cdf(-z)
}

/// Wichura AS241 (PPND16)
fn ppnd16(p: f64) -> f64 {
    let q = p - 0.5;
    if q.abs() <= 0.425 {
        let r = 0.180625 - q * q;
        let num = (((((((2.5090809287301226727e3 * r + 3.3430575583588128105e4) * r + 6.7265770927008700853e4) * r
            + 4.5921953931549871457e4)
            * r
            + 1.3731693765509461125e4)
            * r
            + 1.9715909503065514427e3)
            * r
            + 1.3314166789178437745e2)
            * r
            + 3.3871328727963666080e0)
            * q;
        let den = ((((((5.2264952788528545610e3 * r + 2.8729085735721942674e4) * r + 3.9307895800092710610e4) * r
            + 2.1213794301586595867e4)
            * r
            + 5.3941960214247511077e3)
            * r
            + 6.8718700749205790830e2)
            * r
            + 4.2313330701600911252e1)
            * r
            + 1.0;
        return num / den;
    }
    let mut r = if q < 0.0 { p } else { 1.0 - p };
    r = (-r.ln()).sqrt();
    let val = if r <= 5.0 {
        let r = r - 1.6;
        let num = ((((((7.74545014278341407640e-4 * r + 2.27238449892691845833e-2) * r + 2.41780725177450611770e-1) * r
            + 1.27045825245236838258e0)
            * r
            + 3.64784832476320460504e0)
            * r
            + 5.76949722146069140550e0)
            * r
            + 4.63033784615654529590e0)
            * r
            + 1.42343711074968357734e0;
        let den = ((((((1.05075007164441684324e-9 * r + 5.47593808499534494600e-4) * r + 1.51986665636164571966e-2) * r
            + 1.48103976427480074590e-1)
            * r
            + 6.89767334985100004550e-1)
            * r
            + 1.67638483018380384940e0)
            * r
            + 2.05319162663775882187e0)
            * r
            + 1.0;
        num / den
    } else {
        let r = r - 5.0;
        let num = ((((((2.01033439929228813265e-7 * r + 2.71155556874348757815e-5) * r + 1.24266094738807843860e-3) * r
            + 2.65321895265761230930e-2)
            * r
            + 2.96560571828504891230e-1)
            * r
            + 1.78482653991729133580e0)
            * r
            + 5.46378491116411436990e0)
            * r
            + 6.65790464350110377720e0;
        let den = ((((((2.04426310338993978564e-15 * r + 1.42151175831644588870e-7) * r + 1.84631831751005468180e-5) * r
            + 7.86869131145613259100e-4)
            * r
            + 1.48753612908506148525e-2)
            * r
            + 1.36929880922735805310e-1)
            * r
            + 5.99832206555887937690e-1)
            * r
            + 1.0;
        num / den
    };
    if q < 0.0 {
        -val
    } else {
        val
    }
}

/// standard normal quantile, polished by Newton steps on the quadrature CDF
pub fn norm_quantile(p: f64) -> f64 {
    assert!(p > 0.0 && p < 1.0);
    let mut z = ppnd16(p);
    for _ in 0..2 {
        // work on the tail that keeps relative accuracy
        let (err, d) = if p > 0.5 { (-(norm_sf(z) - (1.0 - p)), norm_pdf(z)) } else { (norm_cdf(z) - p, norm_pdf(z)) };
        if d > 0.0 {
            let step = err / d;
            z -= step;
        }
    }
    z
}

/// Student-t quantile (real v >= 1) at probability p in (0,1): bracketed Newton on `t_cdf`
pub fn t_quantile(v: f64, p: f64) -> f64 {
    assert!(p > 0.0 && p < 1.0 && v >= 1.0);
    if p == 0.5 {
        return 0.0;
    }
    if p < 0.5 {
        return -t_quantile_upper(v, p);
    }
    t_quantile_upper(v, 1.0 - p)
}
/// c >= 0 with P(T > c) = q, 0 < q < 1/2
fn t_quantile_upper(v: f64, q: f64) -> f64 {
    // start: closed forms for v = 1, 2 otherwise Cornish–Fisher from the normal quantile
    let z = -norm_quantile(q);
    let mut c = if v == 1.0 {
        (PI * (0.5 - q)).tan()
    } else if v == 2.0 {
        let a = 1.0 - 2.0 * q;
        a * (2.0 / (1.0 - a * a)).sqrt()
    } else {
        let g1 = (z * z * z + z) / 4.0;
        let g2 = (5.0 * z.powi(5) + 16.0 * z.powi(3) + 3.0 * z) / 96.0;
        let g3 = (3.0 * z.powi(7) + 19.0 * z.powi(5) + 17.0 * z.powi(3) - 15.0 * z) / 384.0;
        let c0 = z + g1 / v + g2 / (v * v) + g3 / (v * v * v);
        if c0.is_finite() && c0 > 0.0 {
            c0
        } else {
            z.max(1e-3)
        }
    };
    // bracket
    let mut lo = 0.0f64;
    let mut hi = f64::INFINITY;
    for _ in 0..200 {
        let sf = t_sf_pos(v, c);
        let err = sf - q; // decreasing in c
        if err > 0.0 {
            lo = lo.max(c);
        } else {
            hi = hi.min(c);
        }
        let d = t_pdf(v, c);
        let mut next = if d > 0.0 { c + err / d } else { f64::NAN };
        if !(next > lo && next < hi) {
            next = if hi.is_finite() { 0.5 * (lo + hi) } else { (c * 2.0).max(1.0) };
        }
        if (next - c).abs() <= 2e-16 * c.abs() {
            c = next;
            break;
        }
        c = next;
    }
    c
}

/// binomial pmf for all k = 0..=n by recurrence from the mode, normalised
pub fn binom_pmf(n: usize, p: f64) -> Vec<f64> {
    assert!(p > 0.0 && p < 1.0);
    let mut v = vec![0.0f64; n + 1];
    let mode = (((n + 1) as f64) * p).floor().min(n as f64) as usize;
    v[mode] = 1.0;
    let r = p / (1.0 - p);
    for k in mode..n {
        v[k + 1] = v[k] * ((n - k) as f64 / (k + 1) as f64) * r;
    }
    for k in (1..=mode).rev() {
        v[k - 1] = v[k] * (k as f64 / (n - k + 1) as f64) / r;
    }
    // compensated total
    let mut s = 0.0;
    let mut c = 0.0;
    for &x in &v {
        let y = x - c;
        let t = s + y;
        c = (t - s) - y;
        s = t;
    }
    for x in v.iter_mut() {
        *x /= s;
    }
    v
}

#[cfg(test)]
mod tests {
    use super::*;
    #[test]
    fn closed_forms() {
        // v = 1: F = 1/2 + atan(t)/pi ; v = 2: F = 1/2 + t / (2 sqrt(2 + t^2))
        for &t in &[0.0, 0.1, 0.5, 1.0, 2.0, 6.3, 31.8, 636.0, -3.0] {
            let f1 = 0.5 + (t as f64).atan() / PI;
            let f2 = 0.5 + t / (2.0 * (2.0 + t * t as f64).sqrt());
            assert!((t_cdf(1.0, t) - f1).abs() < 2e-15, "v1 t={t} {} {}", t_cdf(1.0, t), f1);
            assert!((t_cdf(2.0, t) - f2).abs() < 2e-15, "v2 t={t} {} {}", t_cdf(2.0, t), f2);
        }
        assert!((norm_cdf(1.959963984540054) - 0.975).abs() < 1e-15);
        assert!((norm_quantile(0.975) - 1.959963984540054).abs() < 1e-14);
        assert!((t_quantile(9.0, 0.975) - 2.2621571627409915).abs() < 1e-12);
        assert!((t_quantile(1.0, 0.975) - 12.706204736174694).abs() < 1e-10);
        let pm = binom_pmf(10, 0.5);
        assert!((pm[5] - 0.24609375).abs() < 1e-15);
    }
}
