//! Runner, counters, evidence writer, replay files, known findings.

use proptest::strategy::{Strategy, ValueTree};
use proptest::test_runner::{Config, RngSeed, TestCaseError, TestError, TestRunner};
use serde::Serialize;
use serde_json::{json, Value};
use std::cell::{Cell, RefCell};
use std::collections::{BTreeMap, BTreeSet, HashSet};
use std::hash::{Hash, Hasher};
use std::path::PathBuf;
use std::sync::Arc;
use std::time::Instant;

pub const DEFAULT_SEED: u64 = 20260928;

#[derive(Clone, Copy, Debug, PartialEq, Eq)]
pub enum Tier {
    Quick,
    Thorough,
}
impl Tier {
    pub fn name(self) -> &'static str {
        match self {
            Tier::Quick => "quick",
            Tier::Thorough => "thorough",
        }
    }
    /// pick by tier
    pub fn pick<T>(self, q: T, t: T) -> T {
        match self {
            Tier::Quick => q,
            Tier::Thorough => t,
        }
    }
}

/// A property failure as reported by a property function.
#[derive(Clone, Debug)]
pub struct Fail {
    /// call site / input class signature, e.g. `C13/mul_scalar/negative/two_sided`
    pub sig: String,
    pub msg: String,
}
pub type PResult = Result<(), Fail>;
pub fn fail<T>(sig: impl Into<String>, msg: impl Into<String>) -> Result<T, Fail> {
    Err(Fail { sig: sig.into(), msg: msg.into() })
}
#[macro_export]
macro_rules! ensure {
    ($cond:expr, $sig:expr, $($arg:tt)*) => {
        if !($cond) {
            return Err($crate::engine::Fail { sig: ($sig).to_string(), msg: format!($($arg)*) });
        }
    };
}

#[derive(Clone, Debug)]
pub struct Violation {
    pub sig: String,
    pub msg: String,
    pub sub: String,
    pub input: Value,
    pub count: u64,
}

/// Known findings file: `known: property=<ID> sig=<signature> <text>` and
/// `fixed: property=<ID> <commit> <text>` lines. Never written at run time.
#[derive(Default, Debug)]
pub struct Known {
    /// sig -> text
    pub known: BTreeMap<String, String>,
}
impl Known {
    pub fn load(property: &str) -> Known {
        let path = verif_dir().join("known_findings.txt");
        let mut k = Known::default();
        if let Ok(s) = std::fs::read_to_string(path) {
            for line in s.lines() {
                let line = line.trim();
                if let Some(rest) = line.strip_prefix("known:") {
                    let rest = rest.trim();
                    let mut it = rest.splitn(3, ' ');
                    let p = it.next().unwrap_or("");
                    let sg = it.next().unwrap_or("");
                    let text = it.next().unwrap_or("");
                    if p == format!("property={property}") {
                        if let Some(sig) = sg.strip_prefix("sig=") {
                            k.known.insert(sig.to_string(), text.to_string());
                        }
                    }
                }
            }
        }
        k
    }
}

pub fn verif_dir() -> PathBuf {
    std::env::var("VERIF_DIR").map(PathBuf::from).unwrap_or_else(|_| PathBuf::from("/verif"))
}

/// Per-shard accumulator of everything a run observes.
pub struct Obs {
    pub known: Arc<Known>,
    pub evaluations: u64,
    pub nontrivial: HashSet<u64>,
    /// non-trivial cases counted without hashing: only for enumerations that cannot repeat a case
    pub distinct_enum: u64,
    pub classes: BTreeMap<String, u64>,
    pub samples: BTreeMap<String, Vec<Value>>,
    pub headroom: BTreeMap<String, (f64, Value)>,
    pub excluded: BTreeMap<String, u64>,
    pub violations: BTreeMap<String, Violation>,
    pub known_hits: BTreeMap<String, u64>,
    pub notes: BTreeMap<String, Value>,
    /// when true, counters are not updated (used while proptest shrinks)
    pub frozen: bool,
}
impl Obs {
    pub fn new(known: Arc<Known>) -> Obs {
        Obs {
            known,
            evaluations: 0,
            nontrivial: HashSet::new(),
            distinct_enum: 0,
            classes: BTreeMap::new(),
            samples: BTreeMap::new(),
            headroom: BTreeMap::new(),
            excluded: BTreeMap::new(),
            violations: BTreeMap::new(),
            known_hits: BTreeMap::new(),
            notes: BTreeMap::new(),
            frozen: false,
        }
    }
    pub fn child(&self) -> Obs {
        Obs::new(self.known.clone())
    }
    #[inline]
    pub fn eval(&mut self) {
        if !self.frozen {
            self.evaluations += 1;
        }
    }
    #[inline]
    pub fn evals(&mut self, n: u64) {
        if !self.frozen {
            self.evaluations += n;
        }
    }
    pub fn class(&mut self, c: &str) {
        if !self.frozen {
            *self.classes.entry(c.to_string()).or_insert(0) += 1;
        }
    }
    pub fn class_n(&mut self, c: &str, n: u64) {
        if !self.frozen {
            *self.classes.entry(c.to_string()).or_insert(0) += n;
        }
    }
    pub fn nontrivial<H: Hash>(&mut self, key: &H) {
        if !self.frozen {
            let mut h = std::collections::hash_map::DefaultHasher::new();
            key.hash(&mut h);
            self.nontrivial.insert(h.finish());
        }
    }
    /// count `n` non-trivial cases of an enumeration that visits every case exactly once
    pub fn nontrivial_enum(&mut self, n: u64) {
        if !self.frozen {
            self.distinct_enum += n;
        }
    }
    pub fn exclude(&mut self, why: &str) {
        if !self.frozen {
            *self.excluded.entry(why.to_string()).or_insert(0) += 1;
        }
    }
    /// keep up to 2 samples per class label
    pub fn sample(&mut self, class: &str, mk: impl FnOnce() -> Value) {
        if self.frozen {
            return;
        }
        let e = self.samples.entry(class.to_string()).or_default();
        if e.len() < 2 {
            e.push(mk());
        }
    }
    pub fn wants_sample(&self, class: &str) -> bool {
        !self.frozen && self.samples.get(class).map(|v| v.len() < 2).unwrap_or(true)
    }
    /// record error/tolerance ratio; keeps the worst case per key
    pub fn headroom(&mut self, key: &str, ratio: f64, mk: impl FnOnce() -> Value) {
        if self.frozen || !(ratio >= 0.0) {
            return;
        }
        match self.headroom.get(key) {
            Some((r, _)) if *r >= ratio => {}
            _ => {
                self.headroom.insert(key.to_string(), (ratio, mk()));
            }
        }
    }
    /// Report a failure: returns true if it is a fresh violation (not a listed known finding).
    pub fn report(&mut self, sub: &str, input: impl FnOnce() -> Value, f: &Fail) -> bool {
        if self.known.known.contains_key(&f.sig) {
            if !self.frozen {
                *self.known_hits.entry(f.sig.clone()).or_insert(0) += 1;
            }
            return false;
        }
        if self.frozen {
            return true;
        }
        match self.violations.get_mut(&f.sig) {
            Some(v) => v.count += 1,
            None => {
                self.violations.insert(
                    f.sig.clone(),
                    Violation {
                        sig: f.sig.clone(),
                        msg: f.msg.clone(),
                        sub: sub.to_string(),
                        input: input(),
                        count: 1,
                    },
                );
            }
        }
        true
    }
    pub fn is_known(&self, sig: &str) -> bool {
        self.known.known.contains_key(sig)
    }
    pub fn merge(&mut self, o: Obs) {
        self.evaluations += o.evaluations;
        self.nontrivial.extend(o.nontrivial);
        self.distinct_enum += o.distinct_enum;
        for (k, v) in o.classes {
            *self.classes.entry(k).or_insert(0) += v;
        }
        for (k, v) in o.samples {
            let e = self.samples.entry(k).or_default();
            for s in v {
                if e.len() < 2 {
                    e.push(s);
                }
            }
        }
        for (k, (r, v)) in o.headroom {
            match self.headroom.get(&k) {
                Some((r0, _)) if *r0 >= r => {}
                _ => {
                    self.headroom.insert(k, (r, v));
                }
            }
        }
        for (k, v) in o.excluded {
            *self.excluded.entry(k).or_insert(0) += v;
        }
        for (k, v) in o.violations {
            match self.violations.get_mut(&k) {
                Some(e) => e.count += v.count,
                None => {
                    self.violations.insert(k, v);
                }
            }
        }
        for (k, v) in o.known_hits {
            *self.known_hits.entry(k).or_insert(0) += v;
        }
        for (k, v) in o.notes {
            self.notes.insert(k, v);
        }
    }
}

// ------------------------------------------------------------------------------------------
// panic capture

thread_local! {
    static LAST_PANIC: RefCell<String> = RefCell::new(String::new());
}
pub fn install_panic_hook() {
    std::panic::set_hook(Box::new(|info| {
        let loc = info.location().map(|l| format!("{}:{}", l.file(), l.line())).unwrap_or_default();
        let msg = if let Some(s) = info.payload().downcast_ref::<&str>() {
            s.to_string()
        } else if let Some(s) = info.payload().downcast_ref::<String>() {
            s.clone()
        } else {
            "<non-string panic>".to_string()
        };
        LAST_PANIC.with(|p| *p.borrow_mut() = format!("{msg} @ {loc}"));
    }));
}
/// Run `f`, turning a panic into `Err(message @ location)`.
pub fn guard<R>(f: impl FnOnce() -> R) -> Result<R, String> {
    match std::panic::catch_unwind(std::panic::AssertUnwindSafe(f)) {
        Ok(r) => Ok(r),
        Err(_) => Err(LAST_PANIC.with(|p| p.borrow().clone())),
    }
}

// ------------------------------------------------------------------------------------------

pub fn mix(seed: u64, tag: &str, shard: u64) -> u64 {
    // FNV-1a over (seed, tag, shard) followed by a splitmix finaliser: deterministic, no std RandomState
    let mut h: u64 = 0xcbf29ce484222325;
    for b in seed.to_le_bytes().iter().chain(tag.as_bytes()).chain(shard.to_le_bytes().iter()) {
        h ^= *b as u64;
        h = h.wrapping_mul(0x100000001b3);
    }
    let mut z = h.wrapping_add(0x9e3779b97f4a7c15);
    z = (z ^ (z >> 30)).wrapping_mul(0xbf58476d1ce4e5b9);
    z = (z ^ (z >> 27)).wrapping_mul(0x94d049bb133111eb);
    z ^ (z >> 31)
}

/// small deterministic generator for places where a strategy is overkill (permutations in
/// exhaustive loops etc.). Seeded from `mix`, never from the clock.
#[derive(Clone)]
pub struct SplitMix(pub u64);
impl SplitMix {
    pub fn next(&mut self) -> u64 {
        self.0 = self.0.wrapping_add(0x9e3779b97f4a7c15);
        let mut z = self.0;
        z = (z ^ (z >> 30)).wrapping_mul(0xbf58476d1ce4e5b9);
        z = (z ^ (z >> 27)).wrapping_mul(0x94d049bb133111eb);
        z ^ (z >> 31)
    }
    pub fn below(&mut self, n: u64) -> u64 {
        if n == 0 {
            0
        } else {
            ((self.next() as u128 * n as u128) >> 64) as u64
        }
    }
    pub fn unit(&mut self) -> f64 {
        (self.next() >> 11) as f64 / (1u64 << 53) as f64
    }
}

pub struct Run {
    pub id: &'static str,
    pub tier: Tier,
    pub seed: u64,
    pub obs: Obs,
    pub start: Instant,
    pub rule: String,
    pub assumptions: Vec<String>,
    pub exhaustive_parts: Vec<String>,
    pub exhaustive: bool,
    pub technique: String,
    /// classes that must be non-empty, else exit 2 (generator regression)
    pub required_classes: Vec<String>,
    pub infra_errors: Vec<String>,
}

impl Run {
    pub fn new(id: &'static str, tier: Tier, seed: u64) -> Run {
        let known = Arc::new(Known::load(id));
        Run {
            id,
            tier,
            seed,
            obs: Obs::new(known),
            start: Instant::now(),
            rule: String::new(),
            assumptions: vec![],
            exhaustive_parts: vec![],
            exhaustive: false,
            technique: String::new(),
            required_classes: vec![],
            infra_errors: vec![],
        }
    }
    pub fn seed_for(&self, tag: &str, shard: u64) -> u64 {
        mix(self.seed, &format!("{}/{}", self.id, tag), shard)
    }
    pub fn require_class(&mut self, c: &str) {
        self.required_classes.push(c.to_string());
    }

    /// Evaluate one explicit (enumerated) case.
    pub fn case<I: Serialize>(&mut self, sub: &str, input: &I, f: impl FnOnce(&I, &mut Obs) -> PResult) -> bool {
        case_on(&mut self.obs, sub, input, f)
    }

    /// Random search with shrinking over `strategy`; `cases` evaluations.
    pub fn prop<S>(&mut self, sub: &str, cases: u32, strategy: S, f: impl Fn(&S::Value, &mut Obs) -> PResult)
    where
        S: Strategy,
        S::Value: Serialize + std::fmt::Debug + Clone,
    {
        let seed = self.seed_for(sub, 0);
        prop_on(&mut self.obs, sub, cases, seed, strategy, f);
    }

    /// Run `n_shards` independent pieces of work on up to 16 threads; each gets its own Obs.
    pub fn par<F>(&mut self, n_shards: usize, work: F)
    where
        F: Fn(usize, &mut Obs) + Sync,
    {
        let threads = std::thread::available_parallelism().map(|n| n.get()).unwrap_or(4).min(16).min(n_shards.max(1));
        let next = std::sync::atomic::AtomicUsize::new(0);
        let results: std::sync::Mutex<Vec<(usize, Obs)>> = std::sync::Mutex::new(vec![]);
        let known = self.obs.known.clone();
        std::thread::scope(|s| {
            for _ in 0..threads {
                s.spawn(|| loop {
                    let i = next.fetch_add(1, std::sync::atomic::Ordering::SeqCst);
                    if i >= n_shards {
                        break;
                    }
                    let mut o = Obs::new(known.clone());
                    let r = guard(|| work(i, &mut o));
                    if let Err(p) = r {
                        let f = Fail { sig: format!("{}/harness_panic", "INFRA"), msg: p };
                        o.report("harness", || json!({"shard": i}), &f);
                    }
                    results.lock().unwrap().push((i, o));
                });
            }
        });
        let mut v = results.into_inner().unwrap();
        v.sort_by_key(|(i, _)| *i);
        for (_, o) in v {
            self.obs.merge(o);
        }
    }

    /// Write evidence + replay files, print the verdict lines, return the process exit code.
    pub fn finish(mut self) -> i32 {
        let wall = self.start.elapsed().as_secs_f64();
        let dir = verif_dir();
        // infra: harness panics are exit 2
        let mut infra = self.infra_errors.clone();
        if let Some(v) = self.obs.violations.remove("INFRA/harness_panic") {
            infra.push(format!("harness panic: {} (input {})", v.msg, v.input));
        }
        for c in &self.required_classes {
            if self.obs.classes.get(c).copied().unwrap_or(0) == 0 {
                infra.push(format!("generator regression: required class '{c}' is empty"));
            }
        }
        // replay files
        let mut viol_lines = vec![];
        let rdir = dir.join("replays").join(self.id);
        for (sig, v) in &self.obs.violations {
            let _ = std::fs::create_dir_all(&rdir);
            let fname: String = sig.chars().map(|c| if c.is_ascii_alphanumeric() || c == '-' || c == '_' { c } else { '_' }).collect();
            let path = rdir.join(format!("{fname}.json"));
            let body = json!({"property": self.id, "sub": v.sub, "sig": v.sig, "message": v.msg, "occurrences": v.count, "input": v.input});
            let _ = std::fs::write(&path, serde_json::to_string_pretty(&body).unwrap());
            viol_lines.push((sig.clone(), path, v.msg.clone()));
        }
        // evidence
        let mut samples: Vec<Value> = vec![];
        for (class, vs) in &self.obs.samples {
            for v in vs {
                if samples.len() < 40 {
                    samples.push(json!({"class": class, "case": v}));
                }
            }
        }
        let headroom: BTreeMap<String, Value> = self
            .obs
            .headroom
            .iter()
            .map(|(k, (r, v))| (k.clone(), json!({"max_error_over_tolerance": r, "case": v})))
            .collect();
        let distinct = self.obs.nontrivial.len() as u64 + self.obs.distinct_enum;
        let known_hits: BTreeMap<String, Value> = self
            .obs
            .known_hits
            .iter()
            .map(|(k, n)| (k.clone(), json!({"occurrences_excluded": n, "text": self.obs.known.known.get(k)})))
            .collect();
        let ev = json!({
            "property_id": self.id,
            "tier": self.tier.name(),
            "seed": self.seed,
            "level": "exploration",
            "coverage": {
                "evaluations": self.obs.evaluations,
                "distinct_nontrivial": distinct,
                "rule": self.rule,
                "samples": samples,
                "exhaustive": self.exhaustive,
                "exhaustive_parts": self.exhaustive_parts,
                "class_histogram": self.obs.classes,
                "tolerance_headroom": headroom,
                "excluded_by_construction": self.obs.excluded,
                "known_findings_confirmed": known_hits,
                "notes": self.obs.notes,
                "technique": self.technique,
            },
            "assumptions": self.assumptions,
            "wall_s": wall,
            "violations": viol_lines.len(),
        });
        let edir = dir.join("evidence");
        let _ = std::fs::create_dir_all(&edir);
        if let Err(e) = std::fs::write(edir.join(format!("{}.json", self.id)), serde_json::to_string_pretty(&ev).unwrap()) {
            infra.push(format!("cannot write evidence: {e}"));
        }
        for (sig, n) in &self.obs.known_hits {
            println!(
                "KNOWN-FINDING: property={} {} [sig={} occurrences={}]",
                self.id,
                self.obs.known.known.get(sig).cloned().unwrap_or_default(),
                sig,
                n
            );
        }
        println!(
            "{} tier={} seed={} evaluations={} distinct_nontrivial={} violations={} wall={:.1}s",
            self.id,
            self.tier.name(),
            self.seed,
            self.obs.evaluations,
            distinct,
            viol_lines.len(),
            wall
        );
        if !viol_lines.is_empty() {
            for (sig, path, msg) in &viol_lines {
                println!("  violated: {sig}: {msg}");
                println!("VIOLATION property={} replay={}", self.id, path.display());
            }
            return 1;
        }
        if !infra.is_empty() {
            for e in &infra {
                println!("INCONCLUSIVE: {e}");
            }
            return 2;
        }
        if self.obs.evaluations == 0 || distinct < 2 {
            println!("INCONCLUSIVE: nothing non-trivial was explored");
            return 2;
        }
        0
    }
}

pub fn case_on<I: Serialize>(obs: &mut Obs, sub: &str, input: &I, f: impl FnOnce(&I, &mut Obs) -> PResult) -> bool {
    let r = guard(|| f(input, obs));
    let r = match r {
        Ok(r) => r,
        Err(p) => Err(Fail { sig: format!("{sub}/uncaught_panic"), msg: p }),
    };
    match r {
        Ok(()) => true,
        Err(fl) => !obs.report(sub, || serde_json::to_value(input).unwrap_or(Value::Null), &fl),
    }
}

pub fn prop_on<S>(obs: &mut Obs, sub: &str, cases: u32, seed: u64, strategy: S, f: impl Fn(&S::Value, &mut Obs) -> PResult)
where
    S: Strategy,
    S::Value: Serialize + std::fmt::Debug + Clone,
{
    let cfg = Config {
        cases,
        failure_persistence: None,
        rng_seed: RngSeed::Fixed(seed),
        max_shrink_iters: 2500,
        max_global_rejects: 1 << 20,
        max_local_rejects: 1 << 20,
        ..Config::default()
    };
    let mut runner = TestRunner::new(cfg);
    let cell = RefCell::new(obs);
    let failed = Cell::new(false);
    let result = runner.run(&strategy, |v| {
        let mut guard_obs = cell.borrow_mut();
        let o: &mut Obs = &mut **guard_obs;
        if failed.get() {
            o.frozen = true;
        }
        let r = guard(|| f(&v, o));
        let r = match r {
            Ok(r) => r,
            Err(p) => Err(Fail { sig: format!("{sub}/uncaught_panic"), msg: p }),
        };
        let out = match r {
            Ok(()) => Ok(()),
            Err(fl) => {
                if o.is_known(&fl.sig) {
                    // listed finding: count it, let the search go on behind it
                    if !o.frozen {
                        *o.known_hits.entry(fl.sig.clone()).or_insert(0) += 1;
                    }
                    Ok(())
                } else {
                    failed.set(true);
                    Err(TestCaseError::fail(format!("{}: {}", fl.sig, fl.msg)))
                }
            }
        };
        o.frozen = false;
        out
    });
    let obs = cell.into_inner();
    match result {
        Ok(()) => {}
        Err(TestError::Fail(_reason, value)) => {
            // re-evaluate the shrunk input to obtain its signature
            obs.frozen = true;
            let r = guard(|| f(&value, obs));
            obs.frozen = false;
            let fl = match r {
                Ok(Ok(())) => Fail { sig: format!("{sub}/unstable"), msg: "shrunk input passes on re-evaluation (non-deterministic property?)".into() },
                Ok(Err(fl)) => fl,
                Err(p) => Fail { sig: format!("{sub}/uncaught_panic"), msg: p },
            };
            obs.report(sub, || serde_json::to_value(&value).unwrap_or(Value::Null), &fl);
        }
        Err(TestError::Abort(reason)) => {
            let fl = Fail { sig: "INFRA/harness_panic".into(), msg: format!("proptest aborted in {sub}: {reason}") };
            obs.report(sub, || Value::Null, &fl);
        }
    }
}

/// Draw `n` values from a strategy deterministically (no shrinking) — for feeding exhaustive
/// loops with generated material.
pub fn draw<S: Strategy>(strategy: &S, seed: u64, n: usize) -> Vec<S::Value> {
    let cfg = Config { failure_persistence: None, rng_seed: RngSeed::Fixed(seed), ..Config::default() };
    let mut runner = TestRunner::new(cfg);
    (0..n).map(|_| strategy.new_tree(&mut runner).expect("strategy").current()).collect()
}

pub fn hash_of<H: Hash>(h: &H) -> u64 {
    let mut s = std::collections::hash_map::DefaultHasher::new();
    h.hash(&mut s);
    s.finish()
}

pub fn sorted_set(v: impl IntoIterator<Item = String>) -> Vec<String> {
    let s: BTreeSet<String> = v.into_iter().collect();
    s.into_iter().collect()
}
