//! Float helpers: a trait unifying f32/f64 for the harness, bit-exact JSON encoding of floats,
//! ulp arithmetic.

use serde::{Deserialize, Deserializer, Serialize, Serializer};

/// f64 that serialises as "0x<bits>(<decimal>)" so that replay files are bit exact and readable
/// (JSON cannot carry NaN / inf, and decimal round trips are a needless source of doubt).
#[derive(Clone, Copy, Debug, PartialEq)]
pub struct X(pub f64);

impl Serialize for X {
    fn serialize<S: Serializer>(&self, s: S) -> Result<S::Ok, S::Error> {
        s.serialize_str(&format!("0x{:016x}({:e})", self.0.to_bits(), self.0))
    }
}
impl<'de> Deserialize<'de> for X {
    fn deserialize<D: Deserializer<'de>>(d: D) -> Result<Self, D::Error> {
        let s = String::deserialize(d)?;
        parse_x(&s).map(X).ok_or_else(|| serde::de::Error::custom(format!("bad float {s}")))
    }
}
pub fn parse_x(s: &str) -> Option<f64> {
    let s = s.trim();
    if let Some(rest) = s.strip_prefix("0x") {
        let hex: String = rest.chars().take_while(|c| c.is_ascii_hexdigit()).collect();
        return u64::from_str_radix(&hex, 16).ok().map(f64::from_bits);
    }
    s.parse::<f64>().ok()
}
pub fn xs(v: &[f64]) -> Vec<X> {
    v.iter().map(|&x| X(x)).collect()
}
pub fn unx(v: &[X]) -> Vec<f64> {
    v.iter().map(|x| x.0).collect()
}

/// The two sample float types of stats-ci as seen by the harness.
pub trait Fl:
    num_traits::Float + std::fmt::Debug + std::fmt::Display + Send + Sync + 'static + Default
{
    const NAME: &'static str;
    /// unit roundoff 2^-p
    const U: f64;
    const IS32: bool;
    fn from64(x: f64) -> Self;
    fn to64(self) -> f64;
    fn bits64(self) -> u64;
    /// distance in units in the last place of `Self` between two values of the same sign class
    fn ulps_between(a: Self, b: Self) -> u64;
}
impl Fl for f64 {
    const NAME: &'static str = "f64";
    const U: f64 = 1.1102230246251565e-16;
    const IS32: bool = false;
    fn from64(x: f64) -> Self {
        x
    }
    fn to64(self) -> f64 {
        self
    }
    fn bits64(self) -> u64 {
        self.to_bits()
    }
    fn ulps_between(a: f64, b: f64) -> u64 {
        ulps64(a, b)
    }
}
impl Fl for f32 {
    const NAME: &'static str = "f32";
    const U: f64 = 5.960464477539063e-8;
    const IS32: bool = true;
    fn from64(x: f64) -> Self {
        x as f32
    }
    fn to64(self) -> f64 {
        self as f64
    }
    fn bits64(self) -> u64 {
        self.to_bits() as u64
    }
    fn ulps_between(a: f32, b: f32) -> u64 {
        ulps32(a, b)
    }
}

/// monotone map of f64 onto i64 (−0 and +0 both map to 0)
pub fn key64(x: f64) -> i64 {
    let b = x.to_bits();
    if b >> 63 == 1 {
        -((b & 0x7fff_ffff_ffff_ffff) as i64)
    } else {
        b as i64
    }
}
pub fn key32(x: f32) -> i64 {
    let b = x.to_bits();
    if b >> 31 == 1 {
        -((b & 0x7fff_ffff) as i64)
    } else {
        b as i64
    }
}
pub fn ulps64(a: f64, b: f64) -> u64 {
    if a.is_nan() || b.is_nan() {
        return u64::MAX;
    }
    (key64(a) as i128 - key64(b) as i128).unsigned_abs() as u64
}
pub fn ulps32(a: f32, b: f32) -> u64 {
    if a.is_nan() || b.is_nan() {
        return u64::MAX;
    }
    (key32(a) - key32(b)).unsigned_abs()
}
/// next representable f64 toward +inf / −inf
pub fn next_up(x: f64) -> f64 {
    if x.is_nan() || x == f64::INFINITY {
        return x;
    }
    if x == 0.0 {
        return f64::from_bits(1);
    }
    let b = x.to_bits();
    if x > 0.0 {
        f64::from_bits(b + 1)
    } else {
        f64::from_bits(b - 1)
    }
}
pub fn next_down(x: f64) -> f64 {
    -next_up(-x)
}
pub fn next_up32(x: f32) -> f32 {
    if x.is_nan() || x == f32::INFINITY {
        return x;
    }
    if x == 0.0 {
        return f32::from_bits(1);
    }
    let b = x.to_bits();
    if x > 0.0 {
        f32::from_bits(b + 1)
    } else {
        f32::from_bits(b - 1)
    }
}
pub fn next_down32(x: f32) -> f32 {
    -next_up32(-x)
}
/// spacing of f64 numbers at |x| (ulp)
pub fn ulp_of(x: f64) -> f64 {
    let a = x.abs();
    if !a.is_finite() {
        return f64::NAN;
    }
    next_up(a) - a
}

/// exact 2^e as f64 (e within the normal+subnormal range)
pub fn pow2(e: i32) -> f64 {
    if e >= -1022 && e <= 1023 {
        f64::from_bits(((e + 1023) as u64) << 52)
    } else if e < -1022 && e >= -1074 {
        f64::from_bits(1u64 << (e + 1074))
    } else if e > 1023 {
        f64::INFINITY
    } else {
        0.0
    }
}
