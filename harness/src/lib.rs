//! svcheck library: engine, oracles, generators and the property modules (shared with the fuzz target).

#[macro_use]
pub mod engine;
pub mod exact;
pub mod fl;
pub mod gen;
pub mod meanref;
pub mod model;
pub mod props;
pub mod refmath;
