//! Reference values and tolerances for mean-type intervals (DESIGN §4.2, §4.3), shared by
//! C01, C04, C05, C06, C09, C10, C16; plus the start-up self-test of refmath against the
//! mpmath tables.

use crate::exact::{moments, Moments};
use crate::fl::Fl;
use crate::model::Conf;
use crate::refmath as rm;
use serde_json::{json, Value};

pub const POPULATION_LIMIT: f64 = 100_000.0;

/// CDF tolerance envelope of the dependency (statrs 0.18 inverse t CDF), DESIGN §4.3
pub fn cdf_tol_t(dof: f64) -> f64 {
    // Build note: the design-round envelope 8 (2e-14 + 1.5e-15 dof^2) described statrs' raw inverse CDF. Since fix
    // f739aa7 the crate polishes the quantile with Newton steps on statrs' *CDF*, whose own error grows only
    // linearly in dof (t is mapped to x = dof/(dof+t^2), relative error ~ eps in 1-x): measured through C06 on the
    // repaired tree 1.5e-13 (dof < 1e2), 4e-13 (< 1e3), 6e-12 (< 1e4), 2e-11 (< 3e4), 7e-11 (< 1e5).
    8.0 * (2e-14 + 1e-15 * dof)
}
/// The envelope at a given critical value: statrs recovers t from x = dof/(dof + t^2), i.e. t^2 carries an
/// absolute error of about dof * eta with eta the relative tolerance of its incomplete-beta inversion. For
/// probabilities close to 1/2 (|t| << 1) this dominates: the error of t is min(dof eta / (2|t|), sqrt(dof eta))
/// and the CDF error is the density (<= 0.4) times that. Measured through C06 (levels within 1e-5 of 1/2):
/// 9e-12 at dof 6, 2e-10 at dof 94, 5e-7 at dof 1342, 5e-6 at dof 9744, consistent with eta ~ 1e-14;
/// eta = 4e-13 is used. At t = 0 exactly the quantile is exact.
pub fn cdf_tol_t_at(dof: f64, c: f64) -> f64 {
    let eta = 4e-13;
    // (at c = 0 the first branch is infinite and the square-root branch applies: for large dof the dependency
    // returns exactly 0 for probabilities within ~sqrt(dof eta) of 1/2)
    let extra = 0.4 * if c == 0.0 { (dof * eta).sqrt() } else { (dof * eta / (2.0 * c.abs())).min((dof * eta).sqrt()) };
    cdf_tol_t(dof) + extra
}
pub const CDF_TOL_Z: f64 = 2e-15;

/// Reference critical value for (dof, conf) and its allowance Δc.
#[derive(Clone, Copy, Debug)]
pub struct Crit {
    pub c: f64,
    pub dc: f64,
    pub normal: bool,
}
pub fn crit_t(dof: f64, conf: &Conf) -> Crit {
    let p = conf.target();
    let c = rm::t_quantile(dof, p);
    let dens = rm::t_pdf(dof, c);
    Crit { c, dc: cdf_tol_t_at(dof, c) / dens + 4e-16 * c.abs(), normal: false }
}
pub fn crit_z(conf: &Conf) -> Crit {
    let p = conf.target();
    let c = rm::norm_quantile(p);
    // a probability below 1/2 is given to relative precision; one above 1/2 only to ulp(1): the allowance on p is
    // 16 eps p in the lower tail and CDF_TOL_Z otherwise
    let dp = if p < 0.5 { (16.0 * f64::EPSILON * p).min(CDF_TOL_Z) } else { CDF_TOL_Z };
    Crit { c, dc: dp / rm::norm_pdf(c) + 4e-16 * c.abs(), normal: true }
}
/// the branch the documentation prescribes for this dof (t below the limit, z at or above it)
pub fn crit(dof: f64, conf: &Conf) -> Crit {
    if dof < POPULATION_LIMIT {
        crit_t(dof, conf)
    } else {
        crit_z(conf)
    }
}
/// "about 100 000": within the band both branches are acceptable
pub fn crit_candidates(dof: f64, conf: &Conf) -> Vec<Crit> {
    if (dof - POPULATION_LIMIT).abs() <= 2.0 {
        vec![crit_t(dof, conf), crit_z(conf)]
    } else {
        vec![crit(dof, conf)]
    }
}

/// Exact statistics of a sample and the derived error budget.
#[derive(Clone, Debug)]
pub struct MeanRef {
    pub n: usize,
    pub mean: f64,
    pub var: f64,
    pub sd: f64,
    /// s / sqrt(n)
    pub se: f64,
    /// mean |x|
    pub m1: f64,
    /// mean x^2
    pub q: f64,
    /// |mean| / s
    pub kappa: f64,
    pub constant: bool,
    pub mom: Moments,
    /// number of observations whose square is non-zero and below 2^-126 resp. 2^-1022 (they are rounded on the
    /// subnormal grid when the sum of squares is formed); (f32 count, f64 count)
    pub n_sub: (usize, usize),
}
impl MeanRef {
    pub fn new(data: &[f64]) -> MeanRef {
        let mut r = Self::from_moments(moments(data));
        let below = |lim: f64| data.iter().filter(|x| **x != 0.0 && x.abs() < lim).count();
        // |x| < 2^-63 <=> x^2 < 2^-126 ; |x| < 2^-511 <=> x^2 < 2^-1022
        r.n_sub = (below(crate::fl::pow2(-63)), below(crate::fl::pow2(-511)));
        r
    }
    pub fn from_moments(mom: Moments) -> MeanRef {
        let n = mom.n;
        let mean = mom.mean();
        let var = if n >= 2 { mom.variance() } else { f64::NAN };
        let sd = var.sqrt();
        let se = sd / (n as f64).sqrt();
        let m1 = mom.mean_abs();
        let q = mom.mean_sq();
        let constant = n >= 2 && mom.is_constant();
        // without the data every observation is assumed to be affected by underflow (conservative)
        MeanRef { n, mean, var, sd, se, m1, q, kappa: if sd > 0.0 { mean.abs() / sd } else { f64::INFINITY }, constant, mom, n_sub: (n, n) }
    }
    /// Δv: bound on the error of the computed variance, `depth` = merge nesting depth
    pub fn dv<F: Fl>(&self, depth: u32) -> f64 {
        let n = self.n as f64;
        let k = 20.0 + 6.0 * depth as f64;
        // + absolute underflow term: every square and partial sum of squares is rounded to a multiple of the smallest
        // subnormal eta when it falls below the normal range (data of magnitude ~ sqrt(MIN_POSITIVE)); only the
        // observations whose squares actually are below the normal range count (plus two for the final operations)
        let eta = if F::IS32 { crate::fl::pow2(-149) } else { crate::fl::pow2(-1074) };
        let n_sub = if F::IS32 { self.n_sub.0 } else { self.n_sub.1 } as f64;
        (k * n / (n - 1.0) * self.q + self.var) * F::U + 8.0 * (n_sub + 2.0) * eta
    }
    /// inside the conditioning domain: the variance is resolved to 1 %
    pub fn conditioned<F: Fl>(&self, depth: u32) -> bool {
        self.n >= 2 && self.var > 0.0 && self.dv::<F>(depth) <= 0.01 * self.var
    }
    pub fn tol_mean<F: Fl>(&self, depth: u32) -> f64 {
        (4.0 + 2.0 * depth as f64) * F::U * self.m1 + F::U * self.mean.abs() + f64::MIN_POSITIVE
    }
    pub fn tol_var<F: Fl>(&self, depth: u32) -> f64 {
        self.dv::<F>(depth) + f64::MIN_POSITIVE
    }
    pub fn tol_sd<F: Fl>(&self, depth: u32) -> f64 {
        self.dv::<F>(depth) / (2.0 * self.sd) * 1.01 + 2.0 * F::U * self.sd + f64::MIN_POSITIVE
    }
    /// tolerance on a bound mean ∓ c·se (DESIGN §4.2)
    pub fn tol_bound<F: Fl>(&self, c: &Crit, bound: f64, depth: u32) -> f64 {
        let u = F::U;
        let e64 = f64::EPSILON;
        let n = self.n as f64;
        let ds = self.dv::<F>(depth) / (2.0 * self.sd) * 1.01 + u * self.sd;
        2.0 * ((4.0 + 2.0 * depth as f64) * u * self.m1
            + u * bound.abs()
            + c.c.abs() / n.sqrt() * ds
            + 4.0 * e64 * (self.mean.abs() + c.c.abs() * self.se))
            + self.se * c.dc
            + f64::MIN_POSITIVE
    }
    /// expected (kind, low, high) for a mean interval with critical value c
    pub fn expected(&self, conf: &Conf, c: f64) -> (u8, f64, f64) {
        let lo = self.mean - c * self.se;
        let hi = self.mean + c * self.se;
        match conf.kind {
            0 => (0, lo, hi),
            1 => (1, lo, f64::INFINITY),
            _ => (2, f64::NEG_INFINITY, hi),
        }
    }
}

/// Compare an observed (kind, low, high) with the reference; returns the worst error/tolerance
/// ratio over the finite bounds, or a description of the mismatch.
pub fn compare_mean_interval<F: Fl>(r: &MeanRef, conf: &Conf, dof: f64, depth: u32, got: (u8, f64, f64)) -> Result<f64, String> {
    compare_mean_interval_x::<F>(r, conf, dof, depth, got, 0.0)
}
/// `extra`: additional absolute allowance on each bound (e.g. the exp / ln round trip of a geometric bound)
pub fn compare_mean_interval_x<F: Fl>(
    r: &MeanRef,
    conf: &Conf,
    dof: f64,
    depth: u32,
    got: (u8, f64, f64),
    extra: f64,
) -> Result<f64, String> {
    if got.0 != conf.kind {
        return Err(format!("kind of result {} != kind of confidence {}", got.0, conf.kind));
    }
    let mut best: Option<Result<f64, String>> = None;
    for c in crit_candidates(dof, conf) {
        let (_, lo, hi) = r.expected(conf, c.c);
        let mut worst = 0.0f64;
        let mut err: Option<String> = None;
        for (name, g, e) in [("low", got.1, lo), ("high", got.2, hi)] {
            if e.is_infinite() {
                if g != e {
                    err = Some(format!("{name} bound should be {e}, got {g}"));
                }
                continue;
            }
            let tol = r.tol_bound::<F>(&c, e, depth) + extra;
            let d = (g - e).abs();
            if !(d <= tol) {
                err = Some(format!(
                    "{name} bound {g:e} differs from reference {e:e} by {d:e} > tol {tol:e} (mean {:e}, se {:e}, c {:e}, n {}, dof {dof})",
                    r.mean, r.se, c.c, r.n
                ));
            }
            worst = worst.max(d / tol);
        }
        let res = match err {
            Some(e) => Err(e),
            None => Ok(worst),
        };
        match (&best, &res) {
            (None, _) => best = Some(res),
            (Some(Err(_)), Ok(_)) => best = Some(res),
            (Some(Ok(a)), Ok(b)) if b < a => best = Some(res),
            _ => {}
        }
    }
    best.unwrap()
}

// ------------------------------------------------------------------------------------------
// self-test of refmath against the mpmath tables

const GOLDEN: &str = include_str!("../../golden/golden.json");

pub fn selftest() -> Result<Value, String> {
    let g: Value = serde_json::from_str(GOLDEN).map_err(|e| format!("golden.json: {e}"))?;
    let f = |v: &Value| -> f64 { v.as_str().map(|s| s.parse::<f64>().unwrap()).unwrap_or_else(|| v.as_f64().unwrap()) };
    let mut max_t_abs = 0.0f64;
    let mut max_t_rel_tail = 0.0f64;
    for row in g["t_sf"].as_array().unwrap() {
        let (v, t, sf) = (f(&row[0]), f(&row[1]), f(&row[2]));
        let got = rm::t_sf(v, t);
        let d = (got - sf).abs();
        max_t_abs = max_t_abs.max(d);
        if sf > 1e-300 {
            max_t_rel_tail = max_t_rel_tail.max(d / sf);
        }
        if d > 3e-15 {
            return Err(format!("t_sf({v},{t}) = {got:e}, table {sf:e}, diff {d:e}"));
        }
    }
    let mut max_tq_rel = 0.0f64;
    for row in g["t_q"].as_array().unwrap() {
        let (v, p, c) = (f(&row[0]), f(&row[1]), f(&row[2]));
        let got = rm::t_quantile(v, p);
        let rel = (got - c).abs() / c.abs();
        max_tq_rel = max_tq_rel.max(rel);
        if rel > 2e-11 {
            return Err(format!("t_quantile({v},{p}) = {got:e}, table {c:e}, rel {rel:e}"));
        }
    }
    let mut max_n_abs = 0.0f64;
    for row in g["n_sf"].as_array().unwrap() {
        let (z, sf) = (f(&row[0]), f(&row[1]));
        let got = rm::norm_sf(z);
        let d = (got - sf).abs();
        max_n_abs = max_n_abs.max(d);
        if d > 2e-16 + 1e-14 * sf {
            return Err(format!("norm_sf({z}) = {got:e}, table {sf:e}"));
        }
    }
    let mut max_nq = 0.0f64;
    for row in g["n_q"].as_array().unwrap() {
        let (p, z) = (f(&row[0]), f(&row[1]));
        let got = rm::norm_quantile(p);
        let d = (got - z).abs();
        max_nq = max_nq.max(d);
        if d > 2e-14 * z.abs().max(1.0) {
            return Err(format!("norm_quantile({p}) = {got:e}, table {z:e}"));
        }
    }
    let mut max_b = 0.0f64;
    for row in g["binom"].as_array().unwrap() {
        let n = row[0].as_u64().unwrap() as usize;
        let p = f(&row[1]);
        let k = row[2].as_u64().unwrap() as usize;
        let want = f(&row[3]);
        let got = rm::binom_pmf(n, p)[k];
        let rel = (got - want).abs() / want;
        max_b = max_b.max(rel);
        if rel > 1e-11 {
            return Err(format!("binom_pmf({n},{p})[{k}] = {got:e}, table {want:e}"));
        }
    }
    let mut max_g = 0.0f64;
    for row in g["gratio"].as_array().unwrap() {
        let (a, want) = (f(&row[0]), f(&row[1]));
        let got = rm::gamma_ratio_half(a);
        let rel = (got - want).abs() / want;
        max_g = max_g.max(rel);
        if rel > 1e-14 {
            return Err(format!("gamma_ratio_half({a}) = {got:e}, table {want:e}"));
        }
    }
    Ok(json!({
        "t_sf_max_abs_err": max_t_abs, "t_sf_max_rel_err": max_t_rel_tail, "t_quantile_max_rel_err": max_tq_rel,
        "norm_sf_max_abs_err": max_n_abs, "norm_quantile_max_abs_err": max_nq,
        "binom_pmf_max_rel_err": max_b, "gamma_ratio_max_rel_err": max_g,
        "table": "golden/golden.json (mpmath, 30 digits; see golden/gen_golden.py)"
    }))
}

/// run the self-test inside a check: record the measured errors, or mark the run inconclusive
pub fn selftest_into(run: &mut crate::engine::Run) {
    match selftest() {
        Ok(v) => {
            run.obs.notes.insert("refmath_selftest".into(), v);
        }
        Err(e) => run.infra_errors.push(format!("oracle self-test failed: {e}")),
    }
}
