//! C10 — confidence kind and level act coherently on every interval producer.

use crate::engine::{Obs, PResult, Run};
use crate::fl::{Fl, X};
use crate::gen::{self, Sample, LEVEL_GRID};
use crate::meanref::{crit, crit_z, MeanRef};
use crate::model::{bounds, call, Conf, Out};
use crate::props::c04::unpaired_ref;
use crate::props::de;
use proptest::prelude::*;
use serde::{Deserialize, Serialize};
use serde_json::{json, Value};
use stats_ci::comparison::{Paired, Unpaired};
use stats_ci::mean::{Arithmetic, Geometric, Harmonic};
use stats_ci::{proportion, quantile, Interval, StatisticsOps};

#[derive(Clone, Debug, Serialize, Deserialize)]
pub struct Case {
    pub a: Sample,
    pub b: Sample,
    pub p: Sample,
    pub n: u64,
    pub k: u64,
    pub q: X,
    /// one-sided level in (1/2, 1) for relation (i)
    pub l_one: X,
    /// indices into LEVEL_GRID, i1 < i2, for relation (ii)
    pub i1: usize,
    pub i2: usize,
}

type Ev<'a> = Box<dyn Fn(&Conf) -> Result<(u8, f64, f64), String> + 'a>;

struct Prod<'a> {
    name: String,
    eval: Ev<'a>,
    /// absolute slack allowed on a bound b for relations (i) and (ii)
    slack: Box<dyn Fn(&Conf, f64) -> f64 + 'a>,
    /// point estimate and its slack (relation iii)
    point: Option<(f64, f64)>,
    /// far ends for proportion-like producers: one-sided results are two-sided values ending at 0 / 1
    unit_far_ends: bool,
    /// integer ranks: relation (i) allows adjacent values only where `ambiguous` says so
    ranks: Option<Box<dyn Fn(&Conf) -> (bool, bool) + 'a>>,
    /// `point` is a rank: within one position
    rank_point: Option<u64>,
}

fn le(a: f64, b: f64, slack: f64) -> bool {
    // exact comparison first: bounds that under/overflow the float type (0, inf) make the slack meaningless
    a <= b || (slack.is_finite() && a <= b + slack)
}

fn relations(p: &Prod, c: &Case, obs: &mut Obs) -> PResult {
    let name = &p.name;
    let l = c.l_one.0;
    let ev = |conf: &Conf| -> Result<(u8, f64, f64), crate::engine::Fail> { (p.eval)(conf).map_err(|e| crate::engine::Fail { sig: format!("C10/{name}/rejected"), msg: format!("{name} with {conf:?}: {e}") }) };
    // (iv) kind of the result, checked on every evaluation
    let check_kind = |conf: &Conf, r: (u8, f64, f64)| -> PResult {
        if p.unit_far_ends {
            ensure!(r.0 == 0, format!("C10/{name}/kind"), "{name} {conf:?}: proportion results are two-sided values, got kind {}", r.0);
            match conf.kind {
                1 => ensure!(r.2 == 1.0, format!("C10/{name}/far_end"), "{name} {conf:?}: upper one-sided must end at exactly 1, got [{:e}, {:e}]", r.1, r.2),
                2 => ensure!(r.1 == 0.0, format!("C10/{name}/far_end"), "{name} {conf:?}: lower one-sided must start at exactly 0, got [{:e}, {:e}]", r.1, r.2),
                _ => {}
            }
        } else {
            ensure!(r.0 == conf.kind, format!("C10/{name}/kind"), "{name} {conf:?}: kind of the result is {} (0 two-sided, 1 bounded below only, 2 bounded above only)", r.0);
            // (the variant decides which sides are bounded; a finite bound may still overflow the float
            // type, e.g. exp of a log-space bound at n = 2 and level 0.9999, which is not a kind error)
            ensure!(!r.1.is_nan() && !r.2.is_nan(), format!("C10/{name}/nan"), "{name} {conf:?}: NaN bound");
        }
        ensure!(r.1 <= r.2, format!("C10/{name}/inverted"), "{name} {conf:?}: [{:e}, {:e}]", r.1, r.2);
        Ok(())
    };
    // (iii) containment of the point estimate
    let check_point = |conf: &Conf, r: (u8, f64, f64)| -> PResult {
        if conf.kind != 0 && conf.l() < 0.5 {
            return Ok(());
        }
        if let Some(k) = p.rank_point {
            let kf = k as f64;
            if r.1.is_finite() && conf.kind != 2 {
                ensure!(r.1 <= kf, format!("C10/{name}/point_estimate"), "{name} {conf:?}: lower rank {} above the sample-quantile rank {k}", r.1);
            }
            if r.2.is_finite() && conf.kind != 1 {
                ensure!(r.2 + 1.0 >= kf, format!("C10/{name}/point_estimate"), "{name} {conf:?}: upper rank {} more than one position below the sample-quantile rank {k}", r.2);
            }
            return Ok(());
        }
        if let Some((pt, ps)) = p.point {
            let lo_ok = if p.unit_far_ends && conf.kind == 2 { true } else { le(r.1, pt, ps) };
            let hi_ok = if p.unit_far_ends && conf.kind == 1 { true } else { le(pt, r.2, ps) };
            ensure!(lo_ok && hi_ok, format!("C10/{name}/point_estimate"), "{name} {conf:?}: [{:e}, {:e}] does not contain the point estimate {pt:e}", r.1, r.2);
        }
        Ok(())
    };
    obs.evals(8);
    // (i) one-sided(L) vs two-sided(2L-1)
    let two = Conf::new(0, 2.0 * l - 1.0);
    if two.l() > 0.0 && two.l() < 1.0 {
        let rt = ev(&two)?;
        check_kind(&two, rt)?;
        check_point(&two, rt)?;
        let up = Conf::new(1, l);
        let lo = Conf::new(2, l);
        let ru = ev(&up)?;
        let rl = ev(&lo)?;
        check_kind(&up, ru)?;
        check_kind(&lo, rl)?;
        check_point(&up, ru)?;
        check_point(&lo, rl)?;
        if let Some(amb) = &p.ranks {
            let (alo, ahi) = amb(&up);
            let d_lo = (ru.1 - rt.1).abs();
            let d_hi = (rl.2 - rt.2).abs();
            ensure!(d_lo == 0.0 || (alo && d_lo <= 1.0), format!("C10/{name}/one_sided_vs_two_sided"), "{name}: lower rank of upper one-sided({l}) = {}, of two-sided({}) = {}", ru.1, two.l(), rt.1);
            ensure!(d_hi == 0.0 || (ahi && d_hi <= 1.0), format!("C10/{name}/one_sided_vs_two_sided"), "{name}: upper rank of lower one-sided({l}) = {}, of two-sided({}) = {}", rl.2, two.l(), rt.2);
        } else {
            let s1 = (p.slack)(&up, rt.1);
            let s2 = (p.slack)(&lo, rt.2);
            let d1 = if ru.1 == rt.1 { 0.0 } else { (ru.1 - rt.1).abs() };
            let d2 = if rl.2 == rt.2 { 0.0 } else { (rl.2 - rt.2).abs() };
            let (s1, s2) = (if s1.is_nan() { 0.0 } else { s1 }, if s2.is_nan() { 0.0 } else { s2 });
            ensure!(d1 <= s1, format!("C10/{name}/one_sided_vs_two_sided"), "{name}: lower bound of upper one-sided({l}) = {:e}, of two-sided({}) = {:e} (diff {d1:e} > slack {s1:e})", ru.1, two.l(), rt.1);
            ensure!(d2 <= s2, format!("C10/{name}/one_sided_vs_two_sided"), "{name}: upper bound of lower one-sided({l}) = {:e}, of two-sided({}) = {:e} (diff {d2:e} > slack {s2:e})", rl.2, two.l(), rt.2);
            if s1 > 0.0 && s2 > 0.0 && s1.is_finite() && s2.is_finite() {
                obs.headroom(&format!("one_vs_two/{}", name), (d1 / s1).max(d2 / s2), || json!({"L": l}));
            }
        }
    }
    // (ii) nesting in the level, for all three kinds
    // two pairs: two grid levels at least 0.01 apart, and a grid level against a level a quarter of a percent
    // above it (a special case or table entry at a round level must still sit between its neighbours)
    let near = (LEVEL_GRID[c.i2], (LEVEL_GRID[c.i2] + 0.0025).min(0.9999));
    for (l1, l2) in [(LEVEL_GRID[c.i1], LEVEL_GRID[c.i2]), near, (LEVEL_GRID[c.i1] - 0.0005, LEVEL_GRID[c.i1])] {
        if !(l1 >= 0.001 && l2 <= 0.9999 && l2 - l1 >= 0.0004 && (l2 - l1 >= 0.01 || l2 - l1 <= 0.003)) {
            continue;
        }
        for kind in 0u8..3 {
            let (c1, c2) = (Conf::new(kind, l1), Conf::new(kind, l2));
            let (r1, r2) = (ev(&c1)?, ev(&c2)?);
            check_kind(&c1, r1)?;
            check_kind(&c2, r2)?;
            check_point(&c1, r1)?;
            check_point(&c2, r2)?;
            let (sl, sh) = if p.ranks.is_some() { (0.0, 0.0) } else { ((p.slack)(&c2, r2.1), (p.slack)(&c2, r2.2)) };
            let lo_ok = r2.1 == r1.1 || le(r2.1, r1.1, sl);
            let hi_ok = r2.2 == r1.2 || le(r1.2, r2.2, sh);
            ensure!(lo_ok && hi_ok, format!("C10/{name}/nesting/{}", c1.kind_name()), "{name}: CI({l1}) = [{:e}, {:e}] is not included in CI({l2}) = [{:e}, {:e}] ({} kind)", r1.1, r1.2, r2.1, r2.2, c1.kind_name());
        }
    }
    obs.class(&format!("producer/{name}"));
    Ok(())
}

fn ev_float<F: Fl>(o: Out<Interval<F>>) -> Result<(u8, f64, f64), String> {
    match o {
        Out::Ok(i) => Ok(bounds(&i)),
        o => Err(o.describe()),
    }
}

/// kind clause alone, for data outside the conditioning domain of the numeric relations (constant samples,
/// ill-conditioned or extreme magnitudes): whatever the bounds, the variant must be the requested one
fn kind_only<F: Fl>(name: &str, c: &Case, obs: &mut Obs, eval: &dyn Fn(&Conf) -> Out<Interval<F>>) -> PResult {
    for kind in 0u8..3 {
        for l in [c.l_one.0, LEVEL_GRID[c.i1]] {
            let conf = Conf::new(kind, l);
            obs.eval();
            match eval(&conf) {
                Out::Ok(i) => {
                    let r = bounds(&i);
                    ensure!(r.0 == kind, format!("C10/{name}/kind"), "{name} {conf:?}: kind of the result {i:?} is {} (0 two-sided, 1 bounded below only, 2 bounded above only)", r.0);
                    ensure!(!r.1.is_nan() && !r.2.is_nan(), format!("C10/{name}/nan"), "{name} {conf:?}: NaN bound in {i:?}");
                    ensure!(r.1 <= r.2, format!("C10/{name}/inverted"), "{name} {conf:?}: {i:?}");
                    obs.class(&format!("kind-only/{name}"));
                }
                Out::Err(_) => {}
                Out::Panic(p) => return crate::engine::fail(format!("C10/{name}/panic"), format!("{name} {conf:?}: {p}")),
            }
        }
    }
    Ok(())
}

fn float_producers<F: Fl>(c: &Case, obs: &mut Obs) -> PResult {
    let a: Vec<F> = c.a.data.iter().map(|x| F::from64(x.0)).collect();
    let b: Vec<F> = c.b.data.iter().map(|x| F::from64(x.0)).collect();
    let pz: Vec<F> = c.p.data.iter().map(|x| F::from64(x.0)).collect();
    let u = F::U;
    // arithmetic
    let ra = MeanRef::new(&c.a.v64());
    if ra.conditioned::<F>(0) {
        let st = <Arithmetic<F> as StatisticsOps<F>>::from_iter(&a).unwrap();
        let pm = st.sample_mean().to64();
        let dof = (ra.n - 1) as f64;
        let p = Prod {
            name: format!("arithmetic/{}", F::NAME),
            eval: Box::new(|cf| ev_float(call(|| st.ci_mean(cf.get())))),
            slack: Box::new(move |cf, bd| 2.0 * ra.se * crit(dof, cf).dc + 4.0 * u * bd.abs() + f64::MIN_POSITIVE),
            point: Some((pm, 2.0 * u * pm.abs() + f64::MIN_POSITIVE)),
            unit_far_ends: false,
            ranks: None,
            rank_point: None,
        };
        relations(&p, c, obs)?;
    } else {
        obs.exclude("arithmetic: sample outside the conditioning domain (kind clause only)");
        kind_only::<F>(&format!("arithmetic/{}", F::NAME), c, obs, &|cf| call(|| Arithmetic::<F>::ci(cf.get(), &a)))?;
    }
    // paired (truncate to the common length)
    let m = a.len().min(b.len());
    let (ap, bp) = (a[..m].to_vec(), b[..m].to_vec());
    let d64: Vec<f64> = ap.iter().zip(bp.iter()).map(|(x, y)| (*x - *y).to64()).collect();
    let rd = MeanRef::new(&d64);
    if rd.conditioned::<F>(0) {
        let mut st = Paired::<F>::default();
        st.extend(&ap, &bp).unwrap();
        let pm = st.sample_mean().to64();
        let dof = (rd.n - 1) as f64;
        let p = Prod {
            name: format!("paired/{}", F::NAME),
            eval: Box::new(|cf| ev_float(call(|| st.ci_mean(cf.get())))),
            slack: Box::new(move |cf, bd| 2.0 * rd.se * crit(dof, cf).dc + 4.0 * u * bd.abs() + f64::MIN_POSITIVE),
            point: Some((pm, 2.0 * u * pm.abs() + f64::MIN_POSITIVE)),
            unit_far_ends: false,
            ranks: None,
            rank_point: None,
        };
        relations(&p, c, obs)?;
    } else if m >= 2 {
        kind_only::<F>(&format!("paired/{}", F::NAME), c, obs, &|cf| call(|| Paired::<F>::ci(cf.get(), &ap, &bp)))?;
    }
    // unpaired
    let rb = MeanRef::new(&c.b.v64());
    if ra.conditioned::<F>(0) && rb.conditioned::<F>(0) {
        let st = Unpaired::<F>::from_iter(&a, &b).unwrap();
        let pm = (st.stats_a().sample_mean() - st.stats_b().sample_mean()).to64();
        let scale = st.stats_a().sample_mean().to64().abs() + st.stats_b().sample_mean().to64().abs();
        let (ra2, rb2) = (ra.clone(), rb.clone());
        let p = Prod {
            name: format!("unpaired/{}", F::NAME),
            eval: Box::new(|cf| ev_float(call(|| st.ci_mean(cf.get())))),
            slack: Box::new(move |cf, bd| {
                let ur = unpaired_ref::<F>(&ra2, &rb2, cf);
                match ur {
                    Some(ur) => 2.0 * ur.se * crit(ur.dof.max(1.0), cf).dc + 4.0 * u * (bd.abs() + scale) + f64::MIN_POSITIVE,
                    None => f64::INFINITY,
                }
            }),
            point: Some((pm, 4.0 * u * scale + f64::MIN_POSITIVE)),
            unit_far_ends: false,
            ranks: None,
            rank_point: None,
        };
        relations(&p, c, obs)?;
    } else {
        kind_only::<F>(&format!("unpaired/{}", F::NAME), c, obs, &|cf| call(|| Unpaired::<F>::ci(cf.get(), &a, &b)))?;
    }
    // geometric
    let logs: Vec<f64> = pz.iter().map(|x| x.ln().to64()).collect();
    let rl = MeanRef::new(&logs);
    if rl.conditioned::<F>(0) {
        let st = <Geometric<F> as StatisticsOps<F>>::from_iter(&pz).unwrap();
        let pm = st.sample_mean().to64();
        let dof = (rl.n - 1) as f64;
        let p = Prod {
            name: format!("geometric/{}", F::NAME),
            eval: Box::new(|cf| ev_float(call(|| st.ci_mean(cf.get())))),
            slack: Box::new(move |cf, bd| (2.0 * rl.se * crit(dof, cf).dc + 8.0 * u * (1.0 + bd.abs().ln().abs())) * bd.abs() + f64::MIN_POSITIVE),
            point: Some((pm, 8.0 * u * pm.abs() * (1.0 + pm.ln().abs()))),
            unit_far_ends: false,
            ranks: None,
            rank_point: None,
        };
        relations(&p, c, obs)?;
    } else {
        obs.exclude("geometric: log-space data outside the conditioning domain");
    }
    // harmonic, restricted to inputs whose reciprocal-space bounds stay > 0 at the most demanding level used
    let recs: Vec<f64> = pz.iter().map(|x| (F::one() / *x).to64()).collect();
    let rr = MeanRef::new(&recs);
    if rr.conditioned::<F>(0) {
        let dof = (rr.n - 1) as f64;
        // one-sided levels below 1/2 use the critical value of 1 - L with the opposite sign
        let lmax = [c.l_one.0, LEVEL_GRID[c.i1], LEVEL_GRID[c.i2], (LEVEL_GRID[c.i2] + 0.0025).min(0.9999), LEVEL_GRID[c.i1] - 0.0005].iter().fold(0.5f64, |m, &l| m.max(l).max(1.0 - l));
        let cmax = crit(dof, &Conf::new(0, lmax)).c.abs() * 1.001 + 1e-9;
        if rr.mean - cmax * rr.se > rr.mean * 1e-6 {
            let st = <Harmonic<F> as StatisticsOps<F>>::from_iter(&pz).unwrap();
            let pm = st.sample_mean().to64();
            let p = Prod {
                name: format!("harmonic/{}", F::NAME),
                eval: Box::new(|cf| ev_float(call(|| st.ci_mean(cf.get())))),
                slack: Box::new(move |cf, bd| 2.0 * rr.se * crit(dof, cf).dc * bd * bd + 8.0 * u * bd.abs() + f64::MIN_POSITIVE),
                point: Some((pm, 8.0 * u * pm.abs())),
                unit_far_ends: false,
                ranks: None,
                rank_point: None,
            };
            relations(&p, c, obs)?;
        } else {
            obs.exclude("harmonic: reciprocal-space interval reaches 0 (outside C05's stated domain)");
        }
    }
    Ok(())
}

fn count_producers(c: &Case, obs: &mut Obs) -> PResult {
    let (n, k) = (c.n, c.k);
    let ev_prop = |o: Out<Interval<f64>>| -> Result<(u8, f64, f64), String> {
        match o {
            Out::Ok(i) => Ok(bounds(&i)),
            o => Err(o.describe()),
        }
    };
    if k >= 2 && k + 2 <= n {
        let p = Prod {
            name: "proportion_wilson".into(),
            eval: Box::new(|cf| ev_prop(call(|| proportion::ci(cf.get(), n as usize, k as usize)))),
            slack: Box::new(|cf, _| 1e-13 + crit_z(cf).dc),
            point: Some((k as f64 / n as f64, 1e-15)),
            unit_far_ends: true,
            ranks: None,
            rank_point: None,
        };
        relations(&p, c, obs)?;
    }
    if k >= 10 && k + 10 <= n {
        let p = Prod {
            name: "proportion_wald".into(),
            eval: Box::new(|cf| ev_prop(call(|| proportion::ci_z_normal(cf.get(), n as usize, k as usize)))),
            slack: Box::new(|cf, _| 1e-13 + crit_z(cf).dc),
            point: Some((k as f64 / n as f64, 1e-15)),
            unit_far_ends: true,
            ranks: None,
            rank_point: None,
        };
        relations(&p, c, obs)?;
    }
    // quantile ranks and elements
    let q = c.q.0;
    let kq = (q * n as f64).round() as u64;
    if n >= 4 && kq >= 2 && kq + 2 <= n {
        let ev_rank = |o: Out<Interval<usize>>| -> Result<(u8, f64, f64), String> {
            match o {
                Out::Ok(Interval::TwoSided(a, b)) => Ok((0, a as f64, b as f64)),
                Out::Ok(Interval::UpperOneSided(a)) => Ok((1, a as f64, f64::INFINITY)),
                Out::Ok(Interval::LowerOneSided(b)) => Ok((2, f64::NEG_INFINITY, b as f64)),
                o => Err(o.describe()),
            }
        };
        // ambiguity of floor(p n) for the Wilson bounds at this confidence
        let amb = move |cf: &Conf| -> (bool, bool) {
            let z = crit_z(cf).c;
            let (nf, kf, ff) = (n as f64, kq as f64, (n - kq) as f64);
            let z2 = z * z;
            let center = (kf + z2 / 2.0) / (nf + z2);
            let span = (z / (nf + z2) * (kf * ff / nf + z2 / 4.0).sqrt()).abs();
            let near = |p: f64| {
                let x = p * nf;
                (x - x.round()).abs() <= 1e-9 * nf.max(1.0)
            };
            (near(center - span), near(center + span))
        };
        let p = Prod {
            name: "quantile_ranks".into(),
            eval: Box::new(move |cf| ev_rank(call(|| quantile::ci_indices(cf.get(), n as usize, q)))),
            slack: Box::new(|_, _| 0.0),
            point: None,
            unit_far_ends: false,
            ranks: Some(Box::new(amb)),
            rank_point: Some(kq),
        };
        relations(&p, c, obs)?;
        if n <= 40_000 {
            // elements: the data are a permutation of 0..n, so the element at a rank is the rank itself
            let data: Vec<i64> = (0..n as i64).map(|i| (i * 7919) % n as i64).collect();
            let is_perm = {
                let mut s = data.clone();
                s.sort();
                s.iter().enumerate().all(|(i, v)| *v == i as i64)
            };
            if is_perm {
                let ev_el = |o: Out<Interval<i64>>| -> Result<(u8, f64, f64), String> {
                    match o {
                        Out::Ok(Interval::TwoSided(a, b)) => Ok((0, a as f64, b as f64)),
                        Out::Ok(Interval::UpperOneSided(a)) => Ok((1, a as f64, f64::INFINITY)),
                        Out::Ok(Interval::LowerOneSided(b)) => Ok((2, f64::NEG_INFINITY, b as f64)),
                        o => Err(o.describe()),
                    }
                };
                let p = Prod {
                    name: "quantile_elements".into(),
                    eval: Box::new(|cf| ev_el(call(|| quantile::ci(cf.get(), &data, q)))),
                    slack: Box::new(|_, _| 0.0),
                    point: None,
                    unit_far_ends: false,
                    ranks: Some(Box::new(amb)),
                    rank_point: Some(kq),
                };
                relations(&p, c, obs)?;
            }
        }
    }
    Ok(())
}

pub fn case(c: &Case, obs: &mut Obs) -> PResult {
    obs.eval();
    if c.a.f32 {
        float_producers::<f32>(c, obs)?;
    } else {
        float_producers::<f64>(c, obs)?;
    }
    count_producers(c, obs)?;
    obs.nontrivial(&(c.a.f32, c.n, c.k, c.q.0.to_bits(), c.l_one.0.to_bits(), c.i1, c.i2, crate::engine::hash_of(&c.a.v64().iter().map(|x| x.to_bits()).collect::<Vec<_>>())));
    if obs.wants_sample("case") {
        obs.sample("case", || json!({"type": if c.a.f32 { "f32" } else { "f64" }, "n_a": c.a.len(), "n_b": c.b.len(), "n_positive": c.p.len(), "counts": [c.n, c.k], "q": c.q, "one_sided_level": c.l_one, "level_pair": [LEVEL_GRID[c.i1], LEVEL_GRID[c.i2]]}));
    }
    Ok(())
}

pub fn strategy(max_n: usize) -> impl Strategy<Value = Case> {
    any::<bool>().prop_flat_map(move |f32_| {
        (
            gen::sample_of(f32_, max_n, false),
            gen::sample_of(f32_, max_n, false),
            gen::positive_sample_of(f32_, max_n.min(400)),
            prop_oneof![10 => 4u64..60, 10 => 4u64..3000, 10 => 4u64..(1u64 << 30), 1 => 9_000u64..40_000],
            any::<u64>(),
            1u32..1000,
            gen::level_hi(),
            0usize..LEVEL_GRID.len(),
            0usize..LEVEL_GRID.len(),
            // 12 %: some of the samples are constant (zero variance: degenerate intervals, NaN degrees of freedom)
            prop_oneof![22 => Just(0u8), 3 => 1u8..8],
        )
            .prop_map(|(mut a, mut b, mut p, n, r, qm, l_one, i, j, constant)| {
                for (bit, s) in [(1u8, &mut a), (2, &mut b), (4, &mut p)] {
                    if constant & bit != 0 {
                        let v = s.data[0];
                        for x in s.data.iter_mut() {
                            *x = v;
                        }
                        s.shape = "constant".into();
                    }
                }
                let k = ((r as u128 * (n as u128 + 1)) >> 64) as u64;
                let (i1, i2) = if i <= j { (i, j) } else { (j, i) };
                Case { a, b, p, n, k, q: X(qm as f64 / 1000.0), l_one: X(l_one), i1, i2 }
            })
    })
}

pub fn run(run: &mut Run) {
    run.technique = "proptest random search with shrinking; relational oracle over pairs of calls on the same input: one-sided(L) vs two-sided(2L-1), nesting in the level, containment of the point estimate, kind of the result".into();
    run.rule = "for each generated input (two samples, a positive sample, counts (n,k), quantile q; f32/f64) every producer (arithmetic, geometric, harmonic, paired, unpaired, Wilson, Wald, quantile ranks and elements) is evaluated at a one-sided level L in (1/2,1), at two-sided 2L-1, at a pair of grid levels >= 0.01 apart and at two pairs of neighbouring levels (a grid level and the level 0.0025 above it, a grid level and the level 0.0005 below it) for all three kinds; 12 % of the inputs have constant samples, for which (as for any sample outside the conditioning domain) the kind clause alone is checked; non-trivial = Ok results on both sides of a relation; distinct by input hash and levels".into();
    crate::meanref::selftest_into(run);
    let (cases, shards, max_n) = match run.tier {
        crate::engine::Tier::Quick => (24_000u32, 32usize, 400usize),
        crate::engine::Tier::Thorough => (800_000, 256, 2000),
    };
    let seed = run.seed_for("random", 0);
    run.par(shards, |shard, obs| {
        crate::engine::prop_on(obs, "random", cases / shards as u32, crate::engine::mix(seed, "shard", shard as u64), strategy(max_n), case);
    });
    // a few inputs with more than 100 000 observations per sample (the normal-quantile branch of every mean producer)
    {
        let jobs = run.tier.pick(6usize, 48);
        let seed = run.seed_for("large", 0);
        run.par(jobs, |j, obs| {
            let s = strategy(100_001).prop_map(|mut c| {
                // stretch both samples (and the positive one) to 100 001 … 100 400 observations by cycling
                for smp in [&mut c.a, &mut c.b, &mut c.p] {
                    let mut base = smp.data.clone();
                    // a sample scaled to the top of the range was scaled for its own length: make room for the longer one
                    if smp.shape.ends_with("@upper-edge") {
                        for x in base.iter_mut() {
                            *x = crate::fl::X(x.0 * crate::fl::pow2(-12));
                        }
                    }
                    let want = 100_001 + (base.len() % 400);
                    smp.data = (0..want).map(|i| base[i % base.len()]).collect();
                }
                c
            });
            for c in crate::engine::draw(&s, crate::engine::mix(seed, "large", j as u64), 1) {
                crate::engine::case_on(obs, "large", &c, |c, obs| {
                    obs.class("large-samples");
                    case(c, obs)
                });
            }
        });
        run.require_class("large-samples");
    }
    for p in ["unpaired/f64", "unpaired/f32", "arithmetic/f64"] {
        run.require_class(&format!("kind-only/{p}"));
    }
    for p in ["arithmetic/f32", "arithmetic/f64", "paired/f64", "unpaired/f32", "geometric/f64", "harmonic/f32", "harmonic/f64", "proportion_wilson", "proportion_wald", "quantile_ranks", "quantile_elements"] {
        run.require_class(&format!("producer/{p}"));
    }
    run.assumptions.push("slack for t-based producers: 2 se dc(dof, level) with dc the quantile envelope of DESIGN §4.3, plus a few ulps of the bound; proportions 1e-13; ranks equal, or adjacent only where p n is within 1e-9 max(1,n) of an integer".into());
    run.assumptions.push("harmonic is restricted to inputs whose reciprocal-space interval stays > 0 at the highest level used (the domain C05 states)".into());
    crate::props::history::add(run, "C10", &crate::props::history::ALL, 3_000, 200_000);
}

pub fn replay(sub: &str, v: &Value, obs: &mut Obs) -> Option<PResult> {
    Some(match sub {
        "history" => crate::props::history::case(&de(v), obs),
        "random" | "large" => case(&de(v), obs),
        _ => return None,
    })
}
