//! C07 — interval predicates are exactly the set relations of the denoted closed sets.

use crate::engine::{Obs, PResult, Run};
use crate::fl::X;
use crate::model::{all_intervals, MI};
use crate::props::de;
use proptest::prelude::*;
use serde::{Deserialize, Serialize};
use serde_json::{json, Value};
use stats_ci::Interval;
use std::fmt::Debug;
use std::ops::RangeBounds;

#[derive(Clone, Debug, Serialize, Deserialize)]
pub struct PairCase {
    pub ty: String,
    pub a: MI,
    pub b: MI,
}
#[derive(Clone, Debug, Serialize, Deserialize)]
pub struct ProbeCase {
    pub ty: String,
    pub a: MI,
    pub x: i32,
}

pub const TYPES: [&str; 6] = ["i32", "u8", "f64", "f64inf", "char", "str"];

fn chain_i32() -> Vec<i32> {
    vec![-7, -2, 0, 1, 5, 100, 1000]
}
fn chain_u8() -> Vec<u8> {
    vec![1, 2, 3, 10, 100, 200, 254]
}
/// two chains with pairwise equal elements; −0.0 and +0.0 are the same point of the chain
fn chain_f64(alt: bool) -> Vec<f64> {
    vec![-1e300, -2.5, if alt { 0.0 } else { -0.0 }, 1e-300, 1.0, 3.5, 1e300]
}
/// infinities as bounds: used with two-sided intervals only (DESIGN §3.3)
fn chain_f64inf(alt: bool) -> Vec<f64> {
    vec![f64::NEG_INFINITY, -1.0, if alt { 0.0 } else { -0.0 }, 5e-324, 2.0, f64::MAX, f64::INFINITY]
}
fn chain_char() -> Vec<char> {
    vec!['A', 'a', 'b', 'm', 'y', 'z', '\u{10000}']
}
fn chain_str() -> Vec<&'static str> {
    vec!["", "a", "ab", "b", "ba", "z", "zz"]
}

fn rel_class(a: &MI, b: &MI) -> &'static str {
    if a == b {
        "equal"
    } else if !a.intersects(b) {
        "disjoint"
    } else if a.includes(b) && b.includes(a) {
        "same-set"
    } else if a.lo().max(b.lo()) == a.hi().min(b.hi()) && !a.includes(b) && !b.includes(a) {
        "touching"
    } else if a.includes(b) {
        "a-includes-b"
    } else if b.includes(a) {
        "b-includes-a"
    } else {
        "overlap"
    }
}

fn pair_generic<T: PartialOrd + Clone + Debug>(ca: &[T], cb: &[T], c: &PairCase, obs: &mut Obs) -> PResult {
    let ia: Interval<T> = c.a.build(ca);
    let ib: Interval<T> = c.b.build(cb);
    let kp = format!("{}-{}", c.a.kind_name(), c.b.kind_name());
    obs.evals(4);
    obs.class(&format!("pair/{}/{}", kp, rel_class(&c.a, &c.b)));
    obs.nontrivial(&(&c.ty, c.a, c.b));
    if obs.wants_sample(&format!("pair/{kp}")) {
        obs.sample(&format!("pair/{kp}"), || json!({"type": c.ty, "a": format!("{ia:?}"), "b": format!("{ib:?}"), "model_intersects": c.a.intersects(&c.b), "model_a_includes_b": c.a.includes(&c.b)}));
    }
    let want = c.a.intersects(&c.b);
    let got = ia.intersects(&ib);
    ensure!(got == want, format!("C07/intersects/{kp}"), "{ia:?}.intersects({ib:?}) = {got}, sets say {want}");
    let rev = ib.intersects(&ia);
    ensure!(rev == got, format!("C07/intersects_symmetry/{kp}"), "{ia:?}.intersects({ib:?}) = {got} but reverse = {rev}");
    let want = c.a.includes(&c.b);
    let got = ia.includes(&ib);
    ensure!(got == want, format!("C07/includes/{kp}"), "{ia:?}.includes({ib:?}) = {got}, sets say {want}");
    let got = ib.is_included_in(&ia);
    ensure!(got == want, format!("C07/is_included_in/{kp}"), "{ib:?}.is_included_in({ia:?}) = {got}, sets say {want}");
    if c.a == c.b {
        // an interval against itself, passed as the very same object (nothing may depend on the address)
        ensure!(ia.intersects(&ia) && ia.includes(&ia) && ia.is_included_in(&ia), format!("C07/same_object/{kp}"), "{ia:?} against itself (same object): intersects {} includes {} is_included_in {}", ia.intersects(&ia), ia.includes(&ia), ia.is_included_in(&ia));
    }
    Ok(())
}

fn probe_generic<T: PartialOrd + Clone + Debug>(ca: &[T], cb: &[T], c: &ProbeCase, obs: &mut Obs) -> PResult {
    let ia: Interval<T> = c.a.build(ca);
    let x = cb[c.x as usize].clone();
    let k = c.a.kind_name();
    obs.evals(2);
    let pos = if c.x < c.a.lo() {
        "below"
    } else if c.x > c.a.hi() {
        "above"
    } else if c.x == c.a.lo() || c.x == c.a.hi() {
        "at-bound"
    } else {
        "inside"
    };
    obs.class(&format!("probe/{k}/{pos}"));
    obs.nontrivial(&(&c.ty, c.a, c.x, "probe"));
    let want = c.a.contains(c.x);
    let got = ia.contains(&x);
    ensure!(got == want, format!("C07/contains/{k}"), "{ia:?}.contains({x:?}) = {got}, sets say {want}");
    let rb = <Interval<T> as RangeBounds<T>>::contains(&ia, &x);
    ensure!(rb == want, format!("C07/rangebounds_contains/{k}/{pos}"), "RangeBounds::contains({ia:?}, {x:?}) = {rb}, Interval::contains = {got}, sets say {want}");
    // the range view is its two bounds: membership decided from start_bound()/end_bound() directly
    let viab = via_bounds(&ia, &x);
    ensure!(viab == want, format!("C07/range_bounds_view/{k}/{pos}"), "(start_bound, end_bound) of {ia:?} = ({:?}, {:?}) {} {x:?}, sets say {want}", ia.start_bound(), ia.end_bound(), if viab { "contains" } else { "excludes" });
    Ok(())
}

/// membership according to the interval's own start_bound() / end_bound()
fn via_bounds<T: PartialOrd>(i: &Interval<T>, x: &T) -> bool {
    use std::ops::Bound::*;
    let lo_ok = match i.start_bound() {
        Included(l) => l <= x,
        Excluded(l) => l < x,
        Unbounded => true,
    };
    let hi_ok = match i.end_bound() {
        Included(h) => x <= h,
        Excluded(h) => x < h,
        Unbounded => true,
    };
    lo_ok && hi_ok
}

pub fn pair_case(c: &PairCase, obs: &mut Obs) -> PResult {
    match c.ty.as_str() {
        "i32" => pair_generic(&chain_i32(), &chain_i32(), c, obs),
        "u8" => pair_generic(&chain_u8(), &chain_u8(), c, obs),
        "f64" => pair_generic(&chain_f64(false), &chain_f64(true), c, obs),
        "f64inf" => pair_generic(&chain_f64inf(false), &chain_f64inf(true), c, obs),
        "char" => pair_generic(&chain_char(), &chain_char(), c, obs),
        "str" => pair_generic(&chain_str(), &chain_str(), c, obs),
        t => crate::engine::fail("INFRA/harness_panic", format!("unknown type {t}")),
    }
}
/// NaN as a probe (index 7 of the float chains): NaN is a value of the element type and a member of no interval,
/// whichever view is used
fn probe_nan(chain: &[f64], c: &ProbeCase, obs: &mut Obs) -> PResult {
    let ia: Interval<f64> = c.a.build(chain);
    let k = c.a.kind_name();
    obs.evals(2);
    obs.class(&format!("probe/{k}/nan"));
    obs.nontrivial(&(&c.ty, c.a, c.x, "probe-nan"));
    for x in [f64::NAN, -f64::NAN] {
        let got = ia.contains(&x);
        ensure!(!got, format!("C07/contains/{k}/nan"), "{ia:?}.contains(NaN) = true: NaN is a member of no interval");
        let rb = <Interval<f64> as RangeBounds<f64>>::contains(&ia, &x);
        ensure!(rb == got, format!("C07/rangebounds_contains/{k}/nan"), "RangeBounds::contains({ia:?}, NaN) = {rb}, Interval::contains = {got}");
    }
    Ok(())
}

pub fn probe_case(c: &ProbeCase, obs: &mut Obs) -> PResult {
    if c.x == 7 {
        return match c.ty.as_str() {
            "f64" => probe_nan(&chain_f64(false), c, obs),
            "f64inf" => probe_nan(&chain_f64inf(false), c, obs),
            _ => Ok(()),
        };
    }
    match c.ty.as_str() {
        "i32" => probe_generic(&chain_i32(), &chain_i32(), c, obs),
        "u8" => probe_generic(&chain_u8(), &chain_u8(), c, obs),
        "f64" => probe_generic(&chain_f64(false), &chain_f64(true), c, obs),
        "f64inf" => probe_generic(&chain_f64inf(false), &chain_f64inf(true), c, obs),
        "char" => probe_generic(&chain_char(), &chain_char(), c, obs),
        "str" => probe_generic(&chain_str(), &chain_str(), c, obs),
        t => crate::engine::fail("INFRA/harness_panic", format!("unknown type {t}")),
    }
}

// ------------------------------------------------------------------------------------------
// wide-range random pairs: the same definitions evaluated on the bounds themselves

#[derive(Clone, Debug, Serialize, Deserialize)]
pub struct WideI {
    pub ka: u8,
    pub a: (i64, i64),
    pub kb: u8,
    pub b: (i64, i64),
    pub x: i64,
}
#[derive(Clone, Debug, Serialize, Deserialize)]
pub struct WideF {
    pub ka: u8,
    pub a: (X, X),
    pub kb: u8,
    pub b: (X, X),
    pub x: X,
}

/// interval on actual values with None standing for the unbounded side
struct VI<T> {
    lo: Option<T>,
    hi: Option<T>,
}
fn vi<T: PartialOrd + Copy>(kind: u8, p: (T, T)) -> (VI<T>, Interval<T>) {
    let (l, h) = if p.0 <= p.1 { (p.0, p.1) } else { (p.1, p.0) };
    match kind {
        0 => (VI { lo: Some(l), hi: Some(h) }, Interval::TwoSided(l, h)),
        1 => (VI { lo: Some(l), hi: None }, Interval::UpperOneSided(l)),
        _ => (VI { lo: None, hi: Some(h) }, Interval::LowerOneSided(h)),
    }
}
/// lo_a <= lo_b in the extended order (None = −inf)
fn lo_le<T: PartialOrd>(a: &Option<T>, b: &Option<T>) -> bool {
    match (a, b) {
        (None, _) => true,
        (Some(_), None) => false,
        (Some(x), Some(y)) => x <= y,
    }
}
/// hi_a <= hi_b (None = +inf)
fn hi_le<T: PartialOrd>(a: &Option<T>, b: &Option<T>) -> bool {
    match (a, b) {
        (_, None) => true,
        (None, Some(_)) => false,
        (Some(x), Some(y)) => x <= y,
    }
}
/// lo <= hi across (None lo = −inf, None hi = +inf)
fn lo_le_hi<T: PartialOrd>(lo: &Option<T>, hi: &Option<T>) -> bool {
    match (lo, hi) {
        (None, _) | (_, None) => true,
        (Some(x), Some(y)) => x <= y,
    }
}
fn wide_generic<T: PartialOrd + Copy + Debug>(ka: u8, a: (T, T), kb: u8, b: (T, T), x: T, obs: &mut Obs) -> PResult {
    let (ma, ia) = vi(ka, a);
    let (mb, ib) = vi(kb, b);
    let kp = format!("{}-{}", ["two", "upper", "lower"][ka as usize], ["two", "upper", "lower"][kb as usize]);
    obs.evals(5);
    obs.class(&format!("wide/{kp}"));
    let want_int = lo_le_hi(&ma.lo, &mb.hi) && lo_le_hi(&mb.lo, &ma.hi);
    let got = ia.intersects(&ib);
    ensure!(got == want_int, format!("C07/intersects/{kp}"), "{ia:?}.intersects({ib:?}) = {got}, sets say {want_int}");
    ensure!(ib.intersects(&ia) == got, format!("C07/intersects_symmetry/{kp}"), "{ia:?} vs {ib:?}: intersects is not symmetric");
    let want_inc = lo_le(&ma.lo, &mb.lo) && hi_le(&mb.hi, &ma.hi);
    let got = ia.includes(&ib);
    ensure!(got == want_inc, format!("C07/includes/{kp}"), "{ia:?}.includes({ib:?}) = {got}, sets say {want_inc}");
    ensure!(ib.is_included_in(&ia) == want_inc, format!("C07/is_included_in/{kp}"), "{ib:?}.is_included_in({ia:?}) != {want_inc}");
    // (for a NaN probe both comparisons are false: NaN is a member of no interval)
    #[allow(clippy::eq_op)]
    let unordered = x != x;
    let want_c = !unordered && ma.lo.map(|l| l <= x).unwrap_or(true) && ma.hi.map(|h| x <= h).unwrap_or(true);
    let got = ia.contains(&x);
    let k = ["two", "upper", "lower"][ka as usize];
    ensure!(got == want_c, format!("C07/contains/{k}"), "{ia:?}.contains({x:?}) = {got}, sets say {want_c}");
    let rb = <Interval<T> as RangeBounds<T>>::contains(&ia, &x);
    let pos = if want_c { "member" } else { "outside" };
    ensure!(rb == want_c, format!("C07/rangebounds_contains/{k}/{pos}"), "RangeBounds::contains({ia:?}, {x:?}) = {rb}, sets say {want_c}");
    let viab = !unordered && via_bounds(&ia, &x);
    ensure!(viab == want_c, format!("C07/range_bounds_view/{k}/{pos}"), "(start_bound, end_bound) of {ia:?} = ({:?}, {:?}) disagree with the set about {x:?} (sets say {want_c})", ia.start_bound(), ia.end_bound());
    Ok(())
}
pub fn wide_i(c: &WideI, obs: &mut Obs) -> PResult {
    obs.nontrivial(&(c.ka, c.a, c.kb, c.b, c.x));
    wide_generic(c.ka, c.a, c.kb, c.b, c.x, obs)
}
pub fn wide_f(c: &WideF, obs: &mut Obs) -> PResult {
    obs.nontrivial(&(c.ka, c.a.0 .0.to_bits(), c.a.1 .0.to_bits(), c.kb, c.b.0 .0.to_bits(), c.b.1 .0.to_bits(), c.x.0.to_bits()));
    wide_generic(c.ka, (c.a.0 .0, c.a.1 .0), c.kb, (c.b.0 .0, c.b.1 .0), c.x.0, obs)
}

fn wide_i64() -> impl Strategy<Value = i64> {
    prop_oneof![
        3 => any::<i64>(),
        2 => -4i64..=4,
        1 => prop::sample::select(vec![i64::MIN, i64::MIN + 1, -1, 0, 1, i64::MAX - 1, i64::MAX]),
    ]
}
/// any non-NaN f64, with the special values over-represented; one-sided bounds stay finite
fn wide_f64() -> impl Strategy<Value = f64> {
    prop_oneof![
        3 => any::<u64>().prop_map(f64::from_bits).prop_filter("NaN is outside C07's quantifier", |x| !x.is_nan()),
        2 => (-40i32..=40).prop_map(|i| i as f64 * 0.25),
        1 => prop::sample::select(vec![0.0, -0.0, 5e-324, -5e-324, 1.0, -1.0, f64::MAX, f64::MIN]),
    ]
}

pub fn run(run: &mut Run) {
    run.technique = "bounded exhaustive enumeration over a 7-chain (set-model oracle) + random wide-range search with shrinking (proptest)".into();
    run.rule = "all ordered pairs of the 42 intervals over a 7-element chain (and all interval x probe pairs) for 6 element types, plus random i64/f64 intervals; every case is non-trivial; distinct = (type, interval A, interval B or probe)".into();
    let all = all_intervals(0, 6);
    for ty in TYPES {
        for a in &all {
            for b in &all {
                if ty == "f64inf" && (a.kind != 0 || b.kind != 0) {
                    continue;
                }
                run.case("pair", &PairCase { ty: ty.to_string(), a: *a, b: *b }, pair_case);
            }
            for x in 0..8 {
                if ty == "f64inf" && a.kind != 0 {
                    continue;
                }
                if x == 7 && !ty.starts_with("f64") {
                    continue;
                }
                run.case("probe", &ProbeCase { ty: ty.to_string(), a: *a, x }, probe_case);
            }
        }
    }
    run.exhaustive = true;
    run.exhaustive_parts.push("all 42x42 ordered interval pairs and 42x7 probes over a 7-chain for i32,u8,f64,char,&str (f64 with infinities: two-sided only)".into());
    for kp in ["two-two", "two-upper", "two-lower", "upper-two", "upper-upper", "upper-lower", "lower-two", "lower-upper", "lower-lower"] {
        for rc in ["disjoint", "touching"] {
            if (kp == "upper-upper" || kp == "lower-lower") && (rc == "disjoint" || rc == "touching") {
                continue;
            }
            run.require_class(&format!("pair/{kp}/{rc}"));
        }
    }
    let n = run.tier.pick(100_000, 4_000_000);
    let si = (0u8..3, (wide_i64(), wide_i64()), 0u8..3, (wide_i64(), wide_i64()), wide_i64()).prop_map(|(ka, a, kb, b, x)| WideI { ka, a, kb, b, x });
    run.prop("wide_i64", n, si, wide_i);
    let fin = |x: f64| if x.is_infinite() { f64::MAX.copysign(x) } else { x };
    let sf = (0u8..3, (wide_f64(), wide_f64()), 0u8..3, (wide_f64(), wide_f64()), wide_f64()).prop_map(move |(ka, a, kb, b, x)| {
        // one-sided bounds are interior (finite) values, see DESIGN §3.3
        let a = if ka == 0 { a } else { (fin(a.0), fin(a.1)) };
        let b = if kb == 0 { b } else { (fin(b.0), fin(b.1)) };
        WideF { ka, a: (X(a.0), X(a.1)), kb, b: (X(b.0), X(b.1)), x: X(x) }
    });
    // the same with NaN probes mixed in
    let sfn = (0u8..3, (wide_f64(), wide_f64()), 0u8..3, (wide_f64(), wide_f64()), any::<bool>()).prop_map(move |(ka, a, kb, b, neg)| {
        let a = if ka == 0 { a } else { (fin(a.0), fin(a.1)) };
        let b = if kb == 0 { b } else { (fin(b.0), fin(b.1)) };
        WideF { ka, a: (X(a.0), X(a.1)), kb, b: (X(b.0), X(b.1)), x: X(if neg { -f64::NAN } else { f64::NAN }) }
    });
    run.prop("wide_f64_nan_probe", n / 10, sfn, wide_f);
    run.prop("wide_f64", n, sf, wide_f);
    run.assumptions.push("a one-sided interval is unbounded: its missing side is strictly beyond every value of the element type (DESIGN §3.3); NaN bounds are outside the quantifier; NaN probes are inside it (a value that is a member of no interval)".into());
}

pub fn replay(sub: &str, v: &Value, obs: &mut Obs) -> Option<PResult> {
    Some(match sub {
        "pair" => pair_case(&de(v), obs),
        "probe" => probe_case(&de(v), obs),
        "wide_i64" => wide_i(&de(v), obs),
        "wide_f64" | "wide_f64_nan_probe" => wide_f(&de(v), obs),
        _ => return None,
    })
}
