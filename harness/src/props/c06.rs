//! C06 — critical values are true t / normal quantiles (exact coverage under normality).
//! The critical value is observed through the public API only: half-width / standard error of
//! probe data whose sums are exactly representable.

use crate::engine::{Obs, PResult, Run};
use crate::fl::X;
use crate::meanref::{cdf_tol_t_at, CDF_TOL_Z, POPULATION_LIMIT};
use crate::model::{bounds, call, Conf, Out};
use crate::props::de;
use crate::refmath as rm;
use proptest::prelude::*;
use serde::{Deserialize, Serialize};
use serde_json::{json, Value};
use stats_ci::comparison::Unpaired;
use stats_ci::mean::Arithmetic;
use stats_ci::{proportion, Interval, StatisticsOps};

pub const LEVELS: [f64; 32] = [
    0.001, 0.005, 0.01, 0.05, 0.1, 0.2, 0.3, 0.4, 0.45, 0.49, 0.499, 0.4999, 0.49999, 0.4999935, 0.5, 0.500001, 0.50001, 0.5001, 0.501, 0.51, 0.55, 0.6, 0.7, 0.8, 0.9, 0.95, 0.975, 0.99, 0.995, 0.999,
    0.9995, 0.9999,
];

#[derive(Clone, Debug, Serialize, Deserialize)]
pub struct Probe {
    pub n: u64,
    /// true: state built by `+` composition (doubling), false: by an append loop
    pub merged: bool,
}

/// state over n values of ±1 whose sum is 0 (n even) or 1 (n odd); returns (state, exact sum)
fn probe_state(n: u64, merged: bool) -> (Arithmetic<f64>, i64) {
    if !merged {
        let mut s = Arithmetic::<f64>::new();
        let mut sum = 0i64;
        for _ in 0..n {
            let x = if sum == 1 { -1.0 } else { 1.0 };
            sum += x as i64;
            StatisticsOps::append(&mut s, x).unwrap();
        }
        return (s, sum);
    }
    // binary composition: build blocks of 2^j values with sum 0 (j >= 1) and combine them by `+`
    let mut acc = Arithmetic::<f64>::new();
    let mut sum = 0i64;
    let mut block = Arithmetic::<f64>::new(); // 2 values: +1, -1
    StatisticsOps::append(&mut block, 1.0).unwrap();
    StatisticsOps::append(&mut block, -1.0).unwrap();
    let mut bit = 1;
    if n & 1 == 1 {
        StatisticsOps::append(&mut acc, 1.0).unwrap();
        sum = 1;
    }
    while (1u64 << bit) <= n {
        if n & (1u64 << bit) != 0 {
            acc = acc + block;
        }
        block = block + block;
        bit += 1;
    }
    (acc, sum)
}

fn below(conf: &Conf) -> &'static str {
    if conf.kind != 0 && conf.l() < 0.5 {
        "/level_below_half"
    } else {
        ""
    }
}

/// compare the CDF of the reference distribution at the implied critical value with the target
fn check_crit(what: &str, dof: f64, c_obs: f64, obs_err: f64, conf: &Conf, ctx: &dyn Fn() -> String, obs: &mut Obs) -> PResult {
    let target = conf.target();
    let kn = conf.kind_name();
    let mut ok = false;
    let mut msg = String::new();
    let in_band = (dof - POPULATION_LIMIT).abs() <= 2.0;
    let use_t = dof < POPULATION_LIMIT || in_band;
    let use_z = dof >= POPULATION_LIMIT || in_band;
    if use_t {
        let f = rm::t_cdf(dof, c_obs);
        let tol = cdf_tol_t_at(dof, c_obs) + obs_err * rm::t_pdf(dof, c_obs) + 4e-16;
        let d = (f - target).abs();
        if d <= tol {
            ok = true;
            obs.headroom(&format!("{what}/t"), d / tol, || json!({"dof": dof, "conf": conf}));
            // absolute CDF error by dof bucket, away from the |c| << 1 region (measurement of the dependency)
            if c_obs.abs() >= 0.05 {
                let b = if dof < 100.0 { "dof<1e2" } else if dof < 1000.0 { "dof<1e3" } else if dof < 10000.0 { "dof<1e4" } else if dof < 30000.0 { "dof<3e4" } else { "dof<1e5" };
                obs.headroom(&format!("abs_cdf_error(not a ratio)/{what}/{b}"), d, || json!({"dof": dof, "conf": conf, "c": c_obs}));
            }
        } else {
            msg = format!("t CDF with {dof} dof at the implied critical value {c_obs:.15e} is {f:.15}, target {target:.15} (diff {d:e} > tol {tol:e})");
        }
    }
    if !ok && use_z {
        let f = rm::norm_cdf(c_obs);
        let tol = CDF_TOL_Z + obs_err * rm::norm_pdf(c_obs) + 4e-16;
        let d = (f - target).abs();
        if d <= tol {
            ok = true;
            obs.headroom(&format!("{what}/z"), d / tol, || json!({"dof": dof, "conf": conf}));
        } else if msg.is_empty() {
            msg = format!("normal CDF at the implied critical value {c_obs:.15e} is {f:.15}, target {target:.15} (diff {d:e} > tol {tol:e}; dof {dof})");
        }
    }
    let branch = if dof < POPULATION_LIMIT { "t" } else { "normal" };
    ensure!(ok, format!("C06/{what}/{branch}/{kn}{}", below(conf)), "{}: {msg}", ctx());
    Ok(())
}

/// replay of one random (n, confidence) query
pub fn random_replay(n: u64, conf: &Conf, obs: &mut Obs) -> PResult {
    let (st, sum) = probe_state(n, true);
    let nf = n as f64;
    let mean = sum as f64 / nf;
    let var = (nf * nf - (sum * sum) as f64) / (nf * (nf - 1.0));
    let se = (var / nf).sqrt();
    let iv = match call(|| st.ci_mean(conf.get())) {
        Out::Ok(i) => i,
        o => return crate::engine::fail("C06/probe_rejected", o.describe()),
    };
    let (_, lo, hi) = bounds(&iv);
    let c_obs = match conf.kind {
        0 => 0.5 * (hi - lo) / se,
        1 => (mean - lo) / se,
        _ => (hi - mean) / se,
    };
    let obs_err = 8.0 * f64::EPSILON * (c_obs.abs() + (mean.abs() + lo.abs().min(hi.abs())) / se);
    check_crit("mean_random", nf - 1.0, c_obs, obs_err, conf, &|| format!("n={n} (merged), {conf:?}, interval {iv:?}"), obs)
}

pub fn probe_case(p: &Probe, obs: &mut Obs) -> PResult {
    let n = p.n;
    let (state, sum) = probe_state(n, p.merged);
    ensure!(state.sample_count() as u64 == n, "C06/probe_count", "probe state has {} observations, expected {n}", state.sample_count());
    let nf = n as f64;
    let mean = sum as f64 / nf;
    // exact variance of the probe data: (n*n - sum^2) / (n (n-1))
    let var = (nf * nf - (sum * sum) as f64) / (nf * (nf - 1.0));
    let se = (var / nf).sqrt();
    let dof = nf - 1.0;
    let how = if p.merged { "merged" } else { "appended" };
    for &l in LEVELS.iter() {
        for kind in 0u8..3 {
            let conf = Conf::new(kind, l);
            obs.eval();
            let i = match call(|| state.ci_mean(conf.get())) {
                Out::Ok(i) => i,
                o => return crate::engine::fail("C06/probe_rejected", format!("ci_mean({conf:?}) on {n} probe values: {}", o.describe())),
            };
            let (k, lo, hi) = bounds(&i);
            ensure!(k == kind, "C06/kind", "ci_mean({conf:?}) = {i:?}");
            let c_obs = match kind {
                0 => {
                    // both half-widths must agree
                    let a = (mean - lo) / se;
                    let b = (hi - mean) / se;
                    ensure!((a - b).abs() <= 1e-12 * a.abs().max(1e-3), "C06/asymmetric", "n={n} ({how}), {conf:?}: lower half-width implies c={a:e}, upper implies c={b:e}");
                    0.5 * (hi - lo) / se
                }
                1 => (mean - lo) / se,
                _ => (hi - mean) / se,
            };
            // observational error of c: a few ulps of the bound relative to c*se, plus sd rounding
            let obs_err = 8.0 * f64::EPSILON * (c_obs.abs() + (mean.abs() + lo.abs().min(hi.abs())) / se);
            check_crit(if p.merged { "mean_merged" } else { "mean" }, dof, c_obs, obs_err, &conf, &|| format!("n={n} ({how}), {conf:?}, interval {i:?}"), obs)?;
        }
    }
    obs.nontrivial_enum(3 * LEVELS.len() as u64);
    let b = if dof < 10.0 {
        "dof<10"
    } else if dof < 200.0 {
        "dof<200"
    } else if dof < 2000.0 {
        "dof<2000"
    } else if dof < POPULATION_LIMIT - 2.0 {
        "dof<1e5"
    } else if dof <= POPULATION_LIMIT + 2.0 {
        "dof~1e5"
    } else {
        "dof>1e5"
    };
    obs.class(&format!("mean/{how}/{b}"));
    if obs.wants_sample(&format!("mean/{how}/{b}")) {
        obs.sample(&format!("mean/{how}/{b}"), || json!({"n": n, "built": how, "levels": 32, "kinds": 3}));
    }
    Ok(())
}

#[derive(Clone, Debug, Serialize, Deserialize)]
pub struct UnpairedProbe {
    pub na: u64,
    pub nb: u64,
    pub a: X,
    pub b: X,
    pub conf: Conf,
}
pub fn unpaired_case(p: &UnpairedProbe, obs: &mut Obs) -> PResult {
    // samples ±a (na values, na even) and ±b: means 0, exact sums
    let da: Vec<f64> = (0..p.na).map(|i| if i % 2 == 0 { p.a.0 } else { -p.a.0 }).collect();
    let db: Vec<f64> = (0..p.nb).map(|i| if i % 2 == 0 { p.b.0 } else { -p.b.0 }).collect();
    let ma = crate::exact::moments(&da);
    let mb = crate::exact::moments(&db);
    let (va, vb) = (ma.variance(), mb.variance());
    let (na, nb) = (p.na as f64, p.nb as f64);
    let (ta, tb) = (va / na, vb / nb);
    let se = (ta + tb).sqrt();
    let dof = crate::props::c04::eff_dof(ta, tb, na, nb);
    obs.eval();
    let i: Interval<f64> = match call(|| Unpaired::<f64>::ci(p.conf.get(), &da, &db)) {
        Out::Ok(i) => i,
        o => return crate::engine::fail("C06/unpaired_rejected", format!("Unpaired::ci on valid probe data (na={}, nb={}): {}", p.na, p.nb, o.describe())),
    };
    let (k, lo, hi) = bounds(&i);
    ensure!(k == p.conf.kind, "C06/kind", "Unpaired::ci({:?}) = {i:?}", p.conf);
    let c_obs = match k {
        0 => 0.5 * (hi - lo) / se,
        1 => -lo / se,
        _ => hi / se,
    };
    let obs_err = 16.0 * f64::EPSILON * (c_obs.abs() + 1.0);
    // allowance for the rounding of the effective dof itself (a few ulps of dof): dF/d(dof) is tiny
    if va == 0.0 || vb == 0.0 {
        obs.class("unpaired/one-constant-sample");
    }
    let b = if dof <= 4.0 {
        "dof1-4"
    } else if dof < 100.0 {
        "dof4-100"
    } else if dof < POPULATION_LIMIT {
        "dof100-1e5"
    } else {
        "dof>=1e5"
    };
    obs.class(&format!("unpaired/{b}"));
    obs.nontrivial(&(p.na, p.nb, p.a.0.to_bits(), p.b.0.to_bits(), p.conf.kind, p.conf.l().to_bits()));
    if obs.wants_sample(&format!("unpaired/{b}")) {
        obs.sample(&format!("unpaired/{b}"), || json!({"na": p.na, "nb": p.nb, "a": p.a, "b": p.b, "conf": p.conf, "effective_dof": dof, "implied_critical_value": c_obs}));
    }
    check_crit("unpaired", dof, c_obs, obs_err, &p.conf, &|| format!("na={}, nb={}, a={:e}, b={:e}, effective dof {dof}, {:?}, interval {i:?}", p.na, p.nb, p.a.0, p.b.0, p.conf), obs)
}

#[derive(Clone, Debug, Serialize, Deserialize)]
pub struct PropProbe {
    pub n: u64,
    pub k: u64,
    pub conf: Conf,
}
pub fn prop_case(p: &PropProbe, obs: &mut Obs) -> PResult {
    obs.eval();
    let (lo, hi) = match call(|| proportion::ci_wilson(p.conf.get(), p.n as usize, p.k as usize)) {
        Out::Ok(Interval::TwoSided(a, b)) => (a, b),
        o => return crate::engine::fail("C06/proportion_rejected", format!("ci_wilson({:?}, {}, {}) = {}", p.conf, p.n, p.k, o.describe())),
    };
    let nf = p.n as f64;
    let phat = p.k as f64 / nf;
    // invert the score equation at the finite bound(s): z = (phat - p) sqrt(n / (p (1-p))) for a lower root
    let z_of = |b: f64, lower: bool| -> f64 {
        let s = (nf / (b * (1.0 - b))).sqrt();
        if lower {
            (phat - b) * s
        } else {
            (b - phat) * s
        }
    };
    let zs: Vec<f64> = match p.conf.kind {
        0 => vec![z_of(lo, true), z_of(hi, false)],
        1 => vec![z_of(lo, true)],
        _ => vec![z_of(hi, false)],
    };
    let target = p.conf.target();
    for z in zs {
        let f = rm::norm_cdf(z);
        // observational error: the bound carries ~2e-16 absolute error, amplified by sqrt(n/pq)
        let tol = CDF_TOL_Z + rm::norm_pdf(z) * 8.0 * f64::EPSILON * (nf / (phat * (1.0 - phat))).sqrt() * (1.0 + z.abs()) + 1e-15;
        let d = (f - target).abs();
        ensure!(d <= tol, format!("C06/proportion_z/{}{}", p.conf.kind_name(), below(&p.conf)), "ci_wilson({:?}, {}, {}) = [{lo:e}, {hi:e}]: implied z = {z:.15e}, Phi(z) = {f:.15}, target {target:.15} (diff {d:e} > tol {tol:e})", p.conf, p.n, p.k);
        obs.headroom("proportion_z", d / tol, || json!({"n": p.n, "k": p.k, "conf": p.conf}));
    }
    obs.class("proportion_z");
    obs.nontrivial(&(p.n, p.k, p.conf.kind, p.conf.l().to_bits()));
    Ok(())
}

fn unpaired_strategy() -> impl Strategy<Value = UnpairedProbe> {
    let small = (Just(2u64), Just(2u64), 0u32..=4000).prop_map(|(na, nb, r)| (na, nb, 1.0f64, (2f64).powf(-(r as f64) / 400.0)));
    let mid = (1u64..=40, 1u64..=40, -2000i32..=2000).prop_map(|(ha, hb, r)| (2 * ha, 2 * hb, 1.0f64, (2f64).powf(r as f64 / 200.0)));
    let big = (0u32..=1000, 0u32..=1000, -600i32..=600).prop_map(|(ea, eb, r)| {
        let na = 2 * ((2f64).powf(1.0 + ea as f64 / 1000.0 * 17.0) as u64 / 2).max(1);
        let nb = 2 * ((2f64).powf(1.0 + eb as f64 / 1000.0 * 17.0) as u64 / 2).max(1);
        (na, nb, 1.0f64, (2f64).powf(r as f64 / 200.0))
    });
    // one sample constant (scale 0) or of vastly smaller spread: the documented dof tends to n - 1 of the other one
    let degenerate = prop_oneof![8 => Just(None), 1 => Just(Some(0.0f64)), 1 => Just(Some(crate::fl::pow2(-520)))];
    (prop_oneof![3 => small.boxed(), 3 => mid.boxed(), 2 => big.boxed()], crate::gen::conf(), degenerate, any::<bool>()).prop_map(|((na, nb, a, b), conf, deg, swap)| {
        let (a, b) = match deg {
            Some(d) if swap => (d, b.max(1e-3)),
            Some(d) => (a, d),
            None => (a, b),
        };
        UnpairedProbe { na, nb, a: X(a), b: X(b), conf }
    })
}

pub fn run(run: &mut Run) {
    run.technique = "bounded exhaustive enumeration of every integer degree of freedom in a dense range x 32 levels x 3 kinds, plus proptest random real-valued dof via unpaired comparisons; oracle = own t / normal CDF (quadrature) evaluated at the critical value implied by the returned interval".into();
    run.rule = "probe states of n values ±1 (exact sums) for every n in 2..=N (quick 6000, thorough 60000) by append, and by `+` composition for sizes up to 2^22 dense around 100 000 and for counts m 2^32 + r (also 2^24 + r, 2^40 + r, 2^53 + r) with small r; 32 levels (incl. 0.001..0.49) x 3 kinds at every size; real-valued dof in (1, 2e5) from Unpaired::ci with generated sizes and scales; z implied by ci_wilson bounds; each (dof, level, kind) is distinct".into();
    crate::meanref::selftest_into(run);
    let nmax: u64 = run.tier.pick(6000, 60_000);
    run.par((nmax - 1) as usize, |i, obs| {
        let n = i as u64 + 2;
        crate::engine::case_on(obs, "mean", &Probe { n, merged: false }, probe_case);
    });
    run.exhaustive = true;
    run.exhaustive_parts.push(format!("every integer dof 1..={} x 32 levels x 3 kinds", nmax - 1));
    // composed states: sizes dense around the switch and log-spaced up to 2^22
    let mut sizes: Vec<u64> = (99_990..=100_012).collect();
    let count = run.tier.pick(400usize, 20_000);
    let mut g = crate::engine::SplitMix(run.seed_for("merged_sizes", 0));
    for _ in 0..count {
        let e = 1.0 + g.unit() * 21.0;
        sizes.push((2f64).powf(e) as u64 + 2);
    }
    sizes.extend([100_003, 131_072, 1 << 20, 1 << 22, (1 << 22) - 1, 99_000, 50_001]);
    // counts whose low 32 bits (or low 24 / 53 bits) are small: a count narrowed by a cast would land back in t territory
    for base in [1u64 << 32, 1u64 << 33, 3u64 << 32, 1u64 << 40, 1u64 << 24, 1u64 << 53] {
        for r in [2u64, 3, 4, 17, 1001, 65_537, 99_999] {
            sizes.push(base + r);
        }
    }
    let mut g2 = crate::engine::SplitMix(run.seed_for("merged_sizes_wide", 0));
    for _ in 0..run.tier.pick(40usize, 2000) {
        sizes.push(((1 + g2.below(255)) << 32) + 2 + g2.below(100_000));
    }
    let sizes_ref = &sizes;
    run.par(sizes.len(), |i, obs| {
        crate::engine::case_on(obs, "mean_merged", &Probe { n: sizes_ref[i], merged: true }, probe_case);
    });
    // real-valued dof through Unpaired
    let cases = run.tier.pick(30_000u32, 1_200_000);
    let seed = run.seed_for("unpaired", 0);
    let shards = 16usize;
    run.par(shards, |sh, obs| {
        crate::engine::prop_on(obs, "unpaired", cases / shards as u32, crate::engine::mix(seed, "shard", sh as u64), unpaired_strategy(), unpaired_case);
    });
    // random (dof, level) pairs over the whole t range: isolated failures of the quantile (narrow bands of p at
    // particular dof) can only be met by volume
    let n_rand = run.tier.pick(200_000usize, 40_000_000);
    let rshards = 256usize;
    let rseed = run.seed_for("random_dof_level", 0);
    run.par(rshards, |sh, obs| {
        let mut g = crate::engine::SplitMix(crate::engine::mix(rseed, "shard", sh as u64));
        let per = n_rand / rshards;
        let mut cached: Option<(u64, Arithmetic<f64>, i64)> = None;
        for i in 0..per {
            // a new size every 8 draws (building the probe state costs more than a query)
            if i % 8 == 0 || cached.is_none() {
                let n = 2 + g.below(99_999);
                let (st, sum) = probe_state(n, true);
                cached = Some((n, st, sum));
            }
            let (n, st, sum) = cached.as_ref().unwrap();
            let kind = (g.below(3)) as u8;
            let l = 0.001 + 0.9989 * g.unit();
            let conf = Conf::new(kind, l);
            let nf = *n as f64;
            let mean = *sum as f64 / nf;
            let var = (nf * nf - (*sum * *sum) as f64) / (nf * (nf - 1.0));
            let se = (var / nf).sqrt();
            obs.eval();
            let Out::Ok(iv) = call(|| st.ci_mean(conf.get())) else { continue };
            let (_, lo, hi) = bounds(&iv);
            let c_obs = match kind {
                0 => 0.5 * (hi - lo) / se,
                1 => (mean - lo) / se,
                _ => (hi - mean) / se,
            };
            let obs_err = 8.0 * f64::EPSILON * (c_obs.abs() + (mean.abs() + lo.abs().min(hi.abs())) / se);
            let r = check_crit("mean_random", nf - 1.0, c_obs, obs_err, &conf, &|| format!("n={n} (merged), {conf:?}, interval {iv:?}"), obs);
            if let Err(f) = r {
                obs.report("mean_random", || json!({"n": n, "conf": conf}), &f);
            }
        }
        obs.nontrivial_enum(per as u64);
        obs.class("mean/random-dof-level");
    });
    // z implied by proportion intervals
    for (n, k) in [(20u64, 7u64), (50, 11), (400, 37), (1000, 800), (12, 3)] {
        for &l in LEVELS.iter() {
            for kind in 0u8..3 {
                run.case("proportion_z", &PropProbe { n, k, conf: Conf::new(kind, l) }, prop_case);
            }
        }
    }
    for c in ["mean/appended/dof<10", "mean/appended/dof<2000", "mean/merged/dof~1e5", "mean/merged/dof>1e5", "mean/merged/dof<1e5", "unpaired/dof1-4", "unpaired/dof4-100", "unpaired/dof100-1e5", "unpaired/one-constant-sample", "proportion_z"] {
        run.require_class(c);
    }
    run.assumptions.push("'equals' is checked within cdf_tol(dof, c) = 8 (2e-14 + 1e-15 dof) + 0.4 min(4e-13 dof / (2|c|), sqrt(4e-13 dof)) on the t branch and 2e-15 on the normal branch: the measured accuracy envelope of statrs 0.18's inverse CDF (DESIGN §4.3); slips inside that envelope are invisible".into());
    run.assumptions.push("within 2 of 100 000 degrees of freedom either branch is accepted".into());
    crate::props::history::add(run, "C06", &crate::props::history::ALL, 3_000, 200_000);
}

pub fn replay(sub: &str, v: &Value, obs: &mut Obs) -> Option<PResult> {
    Some(match sub {
        "history" => crate::props::history::case(&de(v), obs),
        "mean" | "mean_merged" => probe_case(&de(v), obs),
        "mean_random" => {
            let n = v["n"].as_u64().unwrap_or(2);
            let conf: Conf = de(&v["conf"]);
            random_replay(n, &conf, obs)
        }
        "unpaired" => unpaired_case(&de(v), obs),
        "proportion_z" => prop_case(&de(v), obs),
        _ => return None,
    })
}
