//! C19 — approximate interval equality is kind-aware and bound-wise; Display is canonical.

use crate::engine::{Obs, PResult, Run};
use crate::fl::{Fl, X};
use crate::props::de;
use approx::{AbsDiffEq, RelativeEq, UlpsEq};
use proptest::prelude::*;
use serde::{Deserialize, Serialize};
use serde_json::{json, Value};
use stats_ci::Interval;

#[derive(Clone, Debug, Serialize, Deserialize)]
pub struct ApproxCase {
    pub f32: bool,
    pub ka: u8,
    pub a: (X, X),
    pub kb: u8,
    pub b: (X, X),
    pub epsilon: X,
    pub max_relative: X,
    pub max_ulps: u32,
}

fn mk<F: Fl>(kind: u8, p: (f64, f64)) -> Interval<F> {
    let (l, h) = (F::from64(p.0), F::from64(p.1));
    let (l, h) = if l <= h { (l, h) } else { (h, l) };
    match kind {
        0 => Interval::TwoSided(l, h),
        1 => Interval::UpperOneSided(l),
        _ => Interval::LowerOneSided(h),
    }
}

fn approx_generic<F>(c: &ApproxCase, obs: &mut Obs) -> PResult
where
    F: Fl + AbsDiffEq<Epsilon = F> + RelativeEq + UlpsEq,
{
    let ia: Interval<F> = mk(c.ka, (c.a.0 .0, c.a.1 .0));
    let ib: Interval<F> = mk(c.kb, (c.b.0 .0, c.b.1 .0));
    let eps = F::from64(c.epsilon.0);
    let mr = F::from64(c.max_relative.0);
    let ulps = c.max_ulps;
    let same_kind = c.ka == c.kb;
    let kn = ["two", "upper", "lower"];
    let kp = format!("{}-{}", kn[c.ka as usize], kn[c.kb as usize]);
    // corresponding bounds
    let pairs: Vec<(F, F)> = if !same_kind {
        vec![]
    } else {
        match (&ia, &ib) {
            (Interval::TwoSided(a, b), Interval::TwoSided(x, y)) => vec![(*a, *x), (*b, *y)],
            (Interval::UpperOneSided(a), Interval::UpperOneSided(x)) => vec![(*a, *x)],
            (Interval::LowerOneSided(a), Interval::LowerOneSided(x)) => vec![(*a, *x)],
            _ => unreachable!(),
        }
    };
    let verdicts = |f: &dyn Fn(&F, &F) -> bool| -> (bool, bool) {
        let v: Vec<bool> = pairs.iter().map(|(p, q)| f(p, q)).collect();
        let all = same_kind && v.iter().all(|b| *b);
        let disagree = v.len() == 2 && v[0] != v[1];
        (all, disagree)
    };
    obs.evals(12);
    let mut nontrivial = !same_kind;
    // absolute
    let (want, dis) = verdicts(&|p, q| F::abs_diff_eq(p, q, eps));
    nontrivial |= dis;
    let got = ia.abs_diff_eq(&ib, eps);
    ensure!(got == want, format!("C19/abs_diff_eq/{kp}"), "abs_diff_eq({ia:?}, {ib:?}, eps={eps:?}) = {got}, bound-wise verdict {want}");
    ensure!(ib.abs_diff_eq(&ia, eps) == got, format!("C19/abs_diff_eq_symmetry/{kp}"), "abs_diff_eq({ia:?}, {ib:?}, {eps:?}) is not symmetric");
    obs.class(&format!("abs/{kp}/{}", if got { "eq" } else if dis { "one-bound-differs" } else { "ne" }));
    // relative
    let (want, dis) = verdicts(&|p, q| F::relative_eq(p, q, eps, mr));
    nontrivial |= dis;
    let got = ia.relative_eq(&ib, eps, mr);
    ensure!(got == want, format!("C19/relative_eq/{kp}"), "relative_eq({ia:?}, {ib:?}, eps={eps:?}, max_relative={mr:?}) = {got}, bound-wise verdict {want}");
    ensure!(ib.relative_eq(&ia, eps, mr) == got, format!("C19/relative_eq_symmetry/{kp}"), "relative_eq({ia:?}, {ib:?}) is not symmetric");
    obs.class(&format!("rel/{kp}/{}", if got { "eq" } else if dis { "one-bound-differs" } else { "ne" }));
    // ulps
    let (want, dis) = verdicts(&|p, q| F::ulps_eq(p, q, eps, ulps));
    nontrivial |= dis;
    let got = ia.ulps_eq(&ib, eps, ulps);
    ensure!(got == want, format!("C19/ulps_eq/{kp}"), "ulps_eq({ia:?}, {ib:?}, eps={eps:?}, max_ulps={ulps}) = {got}, bound-wise verdict {want}");
    ensure!(ib.ulps_eq(&ia, eps, ulps) == got, format!("C19/ulps_eq_symmetry/{kp}"), "ulps_eq({ia:?}, {ib:?}) is not symmetric");
    obs.class(&format!("ulps/{kp}/{}", if got { "eq" } else if dis { "one-bound-differs" } else { "ne" }));
    // the negated trait forms are the negations
    ensure!(ia.abs_diff_ne(&ib, eps) == !ia.abs_diff_eq(&ib, eps), format!("C19/abs_diff_ne/{kp}"), "abs_diff_ne({ia:?}, {ib:?}, {eps:?}) is not the negation of abs_diff_eq");
    ensure!(ia.relative_ne(&ib, eps, mr) == !ia.relative_eq(&ib, eps, mr), format!("C19/relative_ne/{kp}"), "relative_ne({ia:?}, {ib:?}) is not the negation of relative_eq");
    ensure!(ia.ulps_ne(&ib, eps, ulps) == !ia.ulps_eq(&ib, eps, ulps), format!("C19/ulps_ne/{kp}"), "ulps_ne({ia:?}, {ib:?}, {eps:?}, {ulps}) = {} is not the negation of ulps_eq = {}", ia.ulps_ne(&ib, eps, ulps), ia.ulps_eq(&ib, eps, ulps));
    ensure!(approx::abs_diff_ne!(ia, ib) == !approx::abs_diff_eq!(ia, ib) && approx::relative_ne!(ia, ib) == !approx::relative_eq!(ia, ib) && approx::ulps_ne!(ia, ib) == !approx::ulps_eq!(ia, ib), format!("C19/ne_macros/{kp}"), "a negated macro form disagrees with its positive form for {ia:?}, {ib:?}");
    // reflexive (for non-negative tolerances), implied by ==
    // (the scalar predicates themselves are not reflexive at infinite values: |inf - inf| is NaN)
    let finite = [c.a.0 .0, c.a.1 .0, c.b.0 .0, c.b.1 .0].iter().all(|x| x.is_finite());
    if !finite {
        obs.exclude("reflexivity / implied-by-equality with an infinite bound (scalar approx is not reflexive there)");
    }
    if finite && c.epsilon.0 >= 0.0 && c.max_relative.0 >= 0.0 {
        ensure!(ia.abs_diff_eq(&ia, eps) && ia.relative_eq(&ia, eps, mr) && ia.ulps_eq(&ia, eps, ulps), format!("C19/reflexive/{kp}"), "{ia:?} is not approximately equal to itself (eps {eps:?})");
        if ia == ib {
            ensure!(ia.abs_diff_eq(&ib, eps) && ia.relative_eq(&ib, eps, mr) && ia.ulps_eq(&ib, eps, ulps), format!("C19/implied_by_eq/{kp}"), "{ia:?} == {ib:?} but not approximately equal");
        }
    }
    if !same_kind {
        ensure!(!ia.abs_diff_eq(&ib, eps) && !ia.relative_eq(&ib, eps, mr) && !ia.ulps_eq(&ib, eps, ulps), format!("C19/mixed_kinds/{kp}"), "{ia:?} ~ {ib:?}: different kinds must never be approximately equal");
    }
    // default-parameter forms
    ensure!(
        <Interval<F> as AbsDiffEq>::default_epsilon() == F::default_epsilon() && <Interval<F> as RelativeEq>::default_max_relative() == F::default_max_relative() && <Interval<F> as UlpsEq>::default_max_ulps() == F::default_max_ulps(),
        "C19/defaults",
        "default tolerances of Interval<{}> differ from the element type's",
        F::NAME
    );
    let (want, _) = verdicts(&|p, q| approx::relative_eq!(*p, *q));
    ensure!(approx::relative_eq!(ia, ib) == want, format!("C19/relative_eq_default/{kp}"), "relative_eq!({ia:?}, {ib:?}) with defaults != bound-wise verdict {want}");
    let (want, _) = verdicts(&|p, q| approx::abs_diff_eq!(*p, *q));
    ensure!(approx::abs_diff_eq!(ia, ib) == want, format!("C19/abs_diff_eq_default/{kp}"), "abs_diff_eq!({ia:?}, {ib:?}) with defaults != bound-wise verdict {want}");
    let (want, _) = verdicts(&|p, q| approx::ulps_eq!(*p, *q));
    ensure!(approx::ulps_eq!(ia, ib) == want, format!("C19/ulps_eq_default/{kp}"), "ulps_eq!({ia:?}, {ib:?}) with defaults != bound-wise verdict {want}");
    if nontrivial {
        obs.nontrivial(&(c.f32, c.ka, c.kb, c.a.0 .0.to_bits(), c.a.1 .0.to_bits(), c.b.0 .0.to_bits(), c.b.1 .0.to_bits(), c.epsilon.0.to_bits(), c.max_relative.0.to_bits(), c.max_ulps));
        let cls = if same_kind { "nontrivial/bounds-disagree" } else { "nontrivial/mixed-kind" };
        obs.class(cls);
        if obs.wants_sample(cls) {
            obs.sample(cls, || json!({"a": format!("{ia:?}"), "b": format!("{ib:?}"), "epsilon": c.epsilon, "max_relative": c.max_relative, "max_ulps": ulps, "type": F::NAME}));
        }
    }
    Ok(())
}
pub fn approx_case(c: &ApproxCase, obs: &mut Obs) -> PResult {
    if c.f32 {
        approx_generic::<f32>(c, obs)
    } else {
        approx_generic::<f64>(c, obs)
    }
}

// Display ---------------------------------------------------------------------------------------

#[derive(Clone, Debug, Serialize, Deserialize)]
pub struct DisplayCase {
    pub kind: u8,
    pub f: (X, X),
    pub i: (i32, i32),
    pub s: (String, String),
    pub c: (char, char),
}
fn disp<T: PartialOrd + std::fmt::Display + Clone + std::fmt::Debug>(kind: u8, lo: T, hi: T, ty: &str) -> PResult {
    let (i, want) = match kind {
        0 => (Interval::TwoSided(lo.clone(), hi.clone()), format!("[{}, {}]", lo, hi)),
        1 => (Interval::UpperOneSided(lo.clone()), format!("[{},->)", lo)),
        _ => (Interval::LowerOneSided(hi.clone()), format!("(<-,{}]", hi)),
    };
    let got = format!("{}", i);
    let k = ["two", "upper", "lower"][kind as usize];
    ensure!(got == want, format!("C19/display/{k}"), "Display of {i:?} ({ty}) = {got:?}, expected {want:?}");
    let got2 = i.to_string();
    ensure!(got2 == want, format!("C19/display/{k}"), "to_string of {i:?} = {got2:?}");
    Ok(())
}
pub fn display_case(c: &DisplayCase, obs: &mut Obs) -> PResult {
    obs.evals(4);
    let k = ["two", "upper", "lower"][c.kind as usize];
    obs.class(&format!("display/{k}"));
    obs.nontrivial(&(c.kind, c.f.0 .0.to_bits(), c.f.1 .0.to_bits(), c.i, &c.s, c.c));
    if obs.wants_sample(&format!("display/{k}")) {
        obs.sample(&format!("display/{k}"), || json!({"kind": k, "f64": [c.f.0, c.f.1], "i32": c.i, "str": c.s, "char": c.c}));
    }
    let (fl, fh) = if c.f.0 .0 <= c.f.1 .0 { (c.f.0 .0, c.f.1 .0) } else { (c.f.1 .0, c.f.0 .0) };
    disp(c.kind, fl, fh, "f64")?;
    disp(c.kind, fl as f32, fh as f32, "f32")?;
    disp(c.kind, c.i.0.min(c.i.1), c.i.0.max(c.i.1), "i32")?;
    let (sl, sh) = if c.s.0 <= c.s.1 { (c.s.0.as_str(), c.s.1.as_str()) } else { (c.s.1.as_str(), c.s.0.as_str()) };
    disp(c.kind, sl, sh, "&str")?;
    disp(c.kind, sl.to_string(), sh.to_string(), "String")?;
    disp(c.kind, c.c.0.min(c.c.1), c.c.0.max(c.c.1), "char")
}

// generators ---------------------------------------------------------------------------------------

fn base_value(f32_: bool) -> impl Strategy<Value = f64> {
    prop_oneof![
        4 => (-64i32..=64).prop_map(|i| i as f64 * 0.375),
        2 => (-30i32..=30, 1u32..(1 << 20)).prop_map(move |(e, m)| m as f64 * crate::fl::pow2(e - 20)),
        1 => prop::sample::select(vec![0.0, -0.0, 1.0, -1.0, f64::INFINITY, f64::NEG_INFINITY, 1e-30, -1e-30]),
        1 => any::<u64>().prop_map(move |b| if f32_ { f32::from_bits(b as u32) as f64 } else { f64::from_bits(b) }).prop_filter("no NaN", |x| !x.is_nan()),
    ]
}
/// perturbation of a bound: by ulps, relatively, absolutely, or not at all
fn perturb(f32_: bool) -> impl Strategy<Value = (u8, i32)> {
    let _ = f32_;
    prop_oneof![2 => Just((0u8, 0i32)), 3 => (1u8..=1, -40i32..=40), 2 => (2u8..=2, -40i32..=40), 2 => (3u8..=3, -40i32..=40)]
}
fn apply_perturb(f32_: bool, x: f64, p: (u8, i32)) -> f64 {
    match p.0 {
        0 => x,
        1 => {
            // step by ulps of the target type
            let mut v = x;
            for _ in 0..p.1.unsigned_abs() {
                v = if f32_ {
                    let w = v as f32;
                    (if p.1 > 0 { crate::fl::next_up32(w) } else { crate::fl::next_down32(w) }) as f64
                } else if p.1 > 0 {
                    crate::fl::next_up(v)
                } else {
                    crate::fl::next_down(v)
                };
            }
            v
        }
        2 => x * (1.0 + p.1 as f64 * 1e-4),
        _ => x + p.1 as f64 * 1e-3,
    }
}

fn approx_strategy() -> impl Strategy<Value = ApproxCase> {
    any::<bool>().prop_flat_map(|f32_| {
        (
            0u8..3,
            (base_value(f32_), base_value(f32_)),
            prop_oneof![3 => Just(None), 1 => (0u8..3).prop_map(Some)],
            (perturb(f32_), perturb(f32_)),
            0u8..12,
            0u8..8,
            prop_oneof![Just(0u32), Just(1), Just(4), 0u32..100, Just(u32::MAX)],
        )
            .prop_map(move |(ka, a, kb, (pl, ph), tol_sel, rel_sel, max_ulps)| {
                let cast = |x: f64| if f32_ { (x as f32) as f64 } else { x };
                let (al, ah) = (cast(a.0), cast(a.1));
                let (al, ah) = if al <= ah { (al, ah) } else { (ah, al) };
                let bl = cast(apply_perturb(f32_, al, pl));
                let bh = cast(apply_perturb(f32_, ah, ph));
                let kb = kb.unwrap_or(ka);
                // tolerances around the actual differences
                let dl = (al - bl).abs();
                let dh = (ah - bh).abs();
                let pick = |d: f64, sel: u8| -> f64 {
                    match sel % 3 {
                        0 => d * 0.999,
                        1 => d,
                        _ => d * 1.001 + f64::MIN_POSITIVE,
                    }
                };
                let epsilon = match tol_sel {
                    0 => 0.0,
                    1..=3 => pick(dl, tol_sel),
                    4..=6 => pick(dh, tol_sel),
                    7 => dl.max(dh) * 2.0,
                    8 => (dl.min(dh) + dl.max(dh)) / 2.0,
                    9 => if f32_ { f32::EPSILON as f64 } else { f64::EPSILON },
                    10 => 1e-3,
                    _ => 1e6,
                };
                let rl = if al.abs().max(bl.abs()) > 0.0 { dl / al.abs().max(bl.abs()) } else { 0.0 };
                let rh = if ah.abs().max(bh.abs()) > 0.0 { dh / ah.abs().max(bh.abs()) } else { 0.0 };
                let max_relative = match rel_sel {
                    0 => 0.0,
                    1 => rl * 0.999,
                    2 => rl * 1.001,
                    3 => rh * 0.999,
                    4 => rh * 1.001,
                    5 => (rl + rh) / 2.0,
                    6 => if f32_ { f32::EPSILON as f64 } else { f64::EPSILON },
                    _ => 0.5,
                };
                let clean = |x: f64| if x.is_finite() { cast(x) } else { 0.0 };
                ApproxCase { f32: f32_, ka, a: (X(al), X(ah)), kb, b: (X(bl), X(bh)), epsilon: X(clean(epsilon)), max_relative: X(clean(max_relative)), max_ulps }
            })
    })
}

pub fn run(run: &mut Run) {
    run.technique = "proptest random search with shrinking; oracle = the scalar approx predicates on corresponding bounds + literal Display strings".into();
    run.rule = "pairs of f64/f32 intervals over all 3x3 kind combinations, the second obtained by perturbing each bound of the first by ulps / relative / absolute amounts, with epsilon / max_relative / max_ulps placed just below, at and just above the actual bound differences; non-trivial = the two bounds disagree about the verdict, or the kinds differ; Display over f64, f32, i32, &str, String, char".into();
    let n = run.tier.pick(150_000, 6_000_000);
    run.prop("approx", n, approx_strategy(), approx_case);
    let ds = (0u8..3, (base_value(false), base_value(false)), (any::<i32>(), any::<i32>()), ("[ -~]{0,6}", "[ -~]{0,6}"), (any::<char>(), any::<char>()))
        .prop_map(|(kind, f, i, s, c)| DisplayCase { kind, f: (X(f.0), X(f.1)), i, s, c });
    run.prop("display", n / 6, ds, display_case);
    for c in ["nontrivial/bounds-disagree", "nontrivial/mixed-kind", "display/two", "display/upper", "display/lower", "abs/two-two/one-bound-differs", "rel/two-two/one-bound-differs", "ulps/two-two/one-bound-differs", "abs/two-two/eq", "abs/upper-upper/ne", "abs/lower-lower/eq"] {
        run.require_class(c);
    }
    run.assumptions.push("the scalar predicates of the approx crate (0.5.1) define 'approximately equal' for a bound; NaN bounds are outside the quantifier".into());
}

pub fn replay(sub: &str, v: &Value, obs: &mut Obs) -> Option<PResult> {
    Some(match sub {
        "approx" => approx_case(&de(v), obs),
        "display" => display_case(&de(v), obs),
        _ => return None,
    })
}
