//! C05 — geometric / harmonic CIs are the back-transformed arithmetic CIs.

use crate::engine::{guard, Obs, PResult, Run};
use crate::fl::{Fl, X};
use crate::gen::{self, Sample};
use crate::model::{bounds, call, Conf, Out};
use crate::props::de;
use proptest::prelude::*;
use serde::{Deserialize, Serialize};
use serde_json::{json, Value};
use stats_ci::error::CIError;
use stats_ci::mean::{Arithmetic, Geometric, Harmonic};
use stats_ci::{Interval, StatisticsOps};

#[derive(Clone, Debug, Serialize, Deserialize)]
pub struct Case {
    pub sample: Sample,
    pub conf: Conf,
    /// 0 one-shot ci, 1 from_iter + ci_mean, 2 append loop + ci_mean
    pub style: u8,
}

fn ulps<F: Fl>(a: f64, b: f64) -> u64 {
    if a.is_infinite() || b.is_infinite() {
        return if a == b { 0 } else { u64::MAX };
    }
    F::ulps_between(F::from64(a), F::from64(b))
}

fn geo_style<F: Fl>(style: u8, conf: &Conf, data: &Vec<F>) -> Out<(Interval<F>, Geometric<F>)> {
    let c = conf.get();
    call(|| {
        let mut s = Geometric::<F>::new();
        match style {
            2 => {
                for x in data {
                    s.append(*x)?;
                }
            }
            _ => s = <Geometric<F> as StatisticsOps<F>>::from_iter(data)?,
        }
        let i = if style == 0 { Geometric::<F>::ci(c, data)? } else { s.ci_mean(c)? };
        Ok((i, s))
    })
}
fn har_style<F: Fl>(style: u8, conf: &Conf, data: &Vec<F>) -> Out<(Interval<F>, Harmonic<F>)> {
    let c = conf.get();
    call(|| {
        let mut s = Harmonic::<F>::new();
        match style {
            2 => {
                for x in data {
                    s.append(*x)?;
                }
            }
            _ => s = <Harmonic<F> as StatisticsOps<F>>::from_iter(data)?,
        }
        let i = if style == 0 { Harmonic::<F>::ci(c, data)? } else { s.ci_mean(c)? };
        Ok((i, s))
    })
}

fn positive_generic<F: Fl>(c: &Case, obs: &mut Obs) -> PResult {
    let data: Vec<F> = c.sample.data.iter().map(|x| F::from64(x.0)).collect();
    let n = data.len();
    let style = c.style % 3;
    let kn = c.conf.kind_name();
    obs.eval();
    obs.class(&format!("{}/{}/{}/{}", F::NAME, c.sample.n_bucket(), kn, c.conf.level_bucket()));
    obs.class(&format!("shape/{}", c.sample.shape));
    // transformed data, computed with the same primitive operations
    let logs: Vec<F> = data.iter().map(|x| x.ln()).collect();
    let recs: Vec<F> = data.iter().map(|x| F::one() / *x).collect();
    let a_log = <Arithmetic<F> as StatisticsOps<F>>::from_iter(&logs).unwrap();
    let a_rec = <Arithmetic<F> as StatisticsOps<F>>::from_iter(&recs).unwrap();
    let a_raw = <Arithmetic<F> as StatisticsOps<F>>::from_iter(&data).unwrap();
    let nonconst = data.iter().any(|x| *x != data[0]);

    // ---- geometric
    let (gi, gs) = match geo_style::<F>(style, &c.conf, &data) {
        Out::Ok(v) => v,
        o => return crate::engine::fail("C05/geometric/rejects_positive_data", format!("Geometric (style {style}, {}, n={n}) on strictly positive data: {}", F::NAME, match o { Out::Err(e) => format!("Err({e:?})"), Out::Panic(p) => format!("panic {p}"), _ => String::new() })),
    };
    let want_log = match call(|| a_log.ci_mean(c.conf.get())) {
        Out::Ok(i) => i,
        o => return crate::engine::fail("C05/geometric/reference_failed", format!("arithmetic CI of the logs: {}", o.describe())),
    };
    let (k, lo, hi) = bounds(&gi);
    let (_, wl, wh) = bounds(&want_log);
    ensure!(k == c.conf.kind, "C05/geometric/kind", "Geometric::ci({:?}) = {gi:?}", c.conf);
    let (elo, ehi) = (F::from64(wl).exp().to64(), F::from64(wh).exp().to64());
    let d = ulps::<F>(lo, if k == 2 { f64::NEG_INFINITY } else { elo }).max(ulps::<F>(hi, if k == 1 { f64::INFINITY } else { ehi }));
    ensure!(d <= 2, format!("C05/geometric/interval/{kn}"), "Geometric ({}, n={n}, {:?}) = {gi:?}, exp of the arithmetic CI of ln x = [{elo:e}, {ehi:e}] ({d} ulp apart)", F::NAME, c.conf);
    obs.class(if d == 0 { "geometric/bit-identical" } else { "geometric/within-2-ulp" });
    let gm = gs.sample_mean().to64();
    let want_gm = a_log.sample_mean().exp().to64();
    ensure!(ulps::<F>(gm, want_gm) <= 2, "C05/geometric/sample_mean", "Geometric::sample_mean = {gm:e}, exp(mean of logs) = {want_gm:e}");
    ensure!(gs.sample_count() == n, "C05/geometric/sample_count", "sample_count {} for {n} values", gs.sample_count());
    let gsem = gs.sample_sem().to64();
    let want_gsem = (a_log.sample_mean().exp() * a_log.sample_sem()).to64();
    ensure!(ulps::<F>(gsem, want_gsem) <= 4, "C05/geometric/sample_sem", "Geometric::sample_sem = {gsem:e}, documented transform G * se(ln x) = {want_gsem:e}");

    if c.sample.shape.starts_with("geometric-only") {
        // magnitudes at which the reciprocals' squares leave the float range: the harmonic half is not exercised here
        obs.class(&format!("geometric_extreme/{}", F::NAME));
        return Ok(());
    }
    // ---- harmonic
    let want_rec = match call(|| a_rec.ci_mean(c.conf.flipped().get())) {
        Out::Ok(i) => i,
        o => return crate::engine::fail("C05/harmonic/reference_failed", format!("arithmetic CI of the reciprocals: {}", o.describe())),
    };
    let (_, rl, rh) = bounds(&want_rec);
    // the reciprocal-space bound that is used must be strictly positive, else the construction has no answer
    let used_positive = match c.conf.kind {
        0 => rl > 0.0,
        1 => rh > 0.0, // upper request uses the lower one-sided reciprocal-space bound (its high end)
        _ => rl > 0.0,
    };
    let hm_state = har_style::<F>(style, &c.conf, &data);
    if !used_positive {
        obs.class("harmonic/straddle");
        obs.exclude("harmonic: reciprocal-space bound <= 0 (outside the stated domain; only C11's facts apply)");
    } else {
        let (hi_, hs) = match hm_state {
            Out::Ok(v) => v,
            o => return crate::engine::fail("C05/harmonic/rejects_positive_data", format!("Harmonic (style {style}, {}, n={n}): {}", F::NAME, match o { Out::Err(e) => format!("Err({e:?})"), Out::Panic(p) => format!("panic {p}"), _ => String::new() })),
        };
        let (k, lo, hi) = bounds(&hi_);
        ensure!(k == c.conf.kind, "C05/harmonic/kind", "Harmonic::ci({:?}) = {hi_:?}", c.conf);
        let one = F::one();
        let elo = (one / F::from64(rh)).to64();
        let ehi = (one / F::from64(rl)).to64();
        let d = ulps::<F>(lo, if k == 2 { f64::NEG_INFINITY } else { elo }).max(ulps::<F>(hi, if k == 1 { f64::INFINITY } else { ehi }));
        ensure!(d <= 2, format!("C05/harmonic/interval/{kn}"), "Harmonic ({}, n={n}, {:?}) = {hi_:?}, reciprocal of the flipped arithmetic CI of 1/x with ends exchanged = [{elo:e}, {ehi:e}] ({d} ulp apart)", F::NAME, c.conf);
        obs.class(if d == 0 { "harmonic/bit-identical" } else { "harmonic/within-2-ulp" });
        let hm = hs.sample_mean().to64();
        let want_hm = (one / a_rec.sample_mean()).to64();
        ensure!(ulps::<F>(hm, want_hm) <= 2, "C05/harmonic/sample_mean", "Harmonic::sample_mean = {hm:e}, 1/(mean of reciprocals) = {want_hm:e}");
        ensure!(hs.sample_count() == n, "C05/harmonic/sample_count", "sample_count {} for {n} values", hs.sample_count());
        let hsem = hs.sample_sem().to64();
        let h = one / a_rec.sample_mean();
        let want_hsem = (h * h * a_rec.sample_sem()).to64();
        ensure!(ulps::<F>(hsem, want_hsem) <= 4, "C05/harmonic/sample_sem", "Harmonic::sample_sem = {hsem:e}, documented transform H^2 * se(1/x) = {want_hsem:e}");
        // H <= G <= A up to rounding
        let am = a_raw.sample_mean().to64();
        // G = exp(mean of ln x) carries the rounding of the logarithms: relative error ~ u (1 + |ln G|)
        let slack = 8.0 * F::U * am.abs() * (1.0 + (n as f64).ln() + gm.abs().ln().abs());
        ensure!(hm <= gm + slack && gm <= am + slack, "C05/mean_inequality", "harmonic {hm:e} <= geometric {gm:e} <= arithmetic {am:e} violated (slack {slack:e})");
        if nonconst {
            obs.nontrivial(&(F::IS32, c.conf.kind, c.conf.l().to_bits(), style, crate::engine::hash_of(&data.iter().map(|x| x.bits64()).collect::<Vec<_>>())));
            let cls = format!("nontrivial/{}", F::NAME);
            obs.class(&cls);
            if obs.wants_sample(&cls) {
                obs.sample(&cls, || json!({"type": F::NAME, "n": n, "first_values": data.iter().take(6).map(|x| x.to64()).collect::<Vec<_>>(), "conf": c.conf, "geometric": format!("{gi:?}"), "harmonic": format!("{hi_:?}"), "H": hm, "G": gm, "A": am}));
            }
        }
    }
    Ok(())
}
pub fn positive_case(c: &Case, obs: &mut Obs) -> PResult {
    if c.sample.f32 {
        positive_generic::<f32>(c, obs)
    } else {
        positive_generic::<f64>(c, obs)
    }
}

// rejection of non-positive observations ---------------------------------------------------------------

#[derive(Clone, Debug, Serialize, Deserialize)]
pub struct RejectCase {
    pub f32: bool,
    /// valid strictly positive values
    pub valid: Vec<X>,
    /// the non-positive value and where it is inserted
    pub bad: X,
    pub pos: usize,
    /// true: Geometric, false: Harmonic
    pub geometric: bool,
}
pub const BAD_VALUES: [f64; 6] = [0.0, -0.0, -5e-324, -1.0, f64::NEG_INFINITY, -1e300];

macro_rules! reject_impl {
    ($name:ident, $ty:ident) => {
        fn $name<F: Fl>(c: &RejectCase, obs: &mut Obs) -> PResult {
            let which = stringify!($ty);
            let valid: Vec<F> = c.valid.iter().map(|x| F::from64(x.0)).collect();
            let bad = F::from64(c.bad.0);
            let pos = c.pos.min(valid.len());
            obs.evals(3);
            let pos_class = if pos == 0 { "first" } else if pos == valid.len() { "last" } else { "middle" };
            obs.class(&format!("reject/{which}/{pos_class}"));
            obs.nontrivial(&(which, F::IS32, pos, c.bad.0.to_bits(), valid.len()));
            // (1) append on a state holding the valid prefix: error with the value, state unchanged
            let mut s = $ty::<F>::new();
            for x in &valid[..pos] {
                s.append(*x).map_err(|e| crate::engine::Fail { sig: format!("C05/{which}/rejects_positive_data"), msg: format!("append({x:?}) = Err({e:?})") })?;
            }
            let before = format!("{s:?}");
            let stats_before = if pos >= 2 { Some((s.sample_mean().bits64(), s.sample_sem().bits64(), s.sample_count())) } else { None };
            let r = guard(|| s.append(bad));
            match r {
                Err(p) => return crate::engine::fail(format!("C05/{which}/append_panic"), format!("{which}::append({bad:?}) panicked: {p}")),
                Ok(Ok(())) => return crate::engine::fail(format!("C05/{which}/accepts_non_positive"), format!("{which}::append({bad:?}) = Ok(()) for a non-positive value")),
                Ok(Err(CIError::NonPositiveValue(v))) => {
                    let same = v.to_bits() == bad.to64().to_bits() || (v == bad.to64());
                    ensure!(same, format!("C05/{which}/error_payload"), "{which}::append({bad:?}) = NonPositiveValue({v:e})");
                }
                Ok(Err(e)) => return crate::engine::fail(format!("C05/{which}/wrong_error"), format!("{which}::append({bad:?}) = Err({e:?})")),
            }
            let after = format!("{s:?}");
            ensure!(before == after, format!("C05/{which}/state_modified"), "{which}::append({bad:?}) failed but changed the state from {before} to {after}");
            if let Some(sb) = stats_before {
                let sa = (s.sample_mean().bits64(), s.sample_sem().bits64(), s.sample_count());
                ensure!(sa == sb, format!("C05/{which}/state_modified"), "statistics changed after a rejected append");
            }
            // (2) extend with the bad value inside: error, and the state equals fresh or the valid prefix
            let mut full = valid.clone();
            full.insert(pos, bad);
            let mut t = $ty::<F>::new();
            let r = guard(|| StatisticsOps::extend(&mut t, &full));
            match r {
                Ok(Err(CIError::NonPositiveValue(_))) => {}
                other => return crate::engine::fail(format!("C05/{which}/extend_outcome"), format!("{which}::extend with {bad:?} at position {pos} = {other:?}")),
            }
            let fresh = format!("{:?}", $ty::<F>::new());
            let tstate = format!("{t:?}");
            ensure!(tstate == fresh || tstate == before, format!("C05/{which}/extend_state"), "after a failing extend the state {tstate} is neither unchanged nor the state of the valid prefix {before}");
            // (2b) the same on a state that already holds observations: they must survive the failing extend
            let mut h = $ty::<F>::new();
            let prior: Vec<F> = vec![F::from64(2.0), F::from64(4.0), F::from64(0.5)];
            StatisticsOps::extend(&mut h, &prior).map_err(|e| crate::engine::Fail { sig: format!("C05/{which}/rejects_positive_data"), msg: format!("{e:?}") })?;
            let held = format!("{h:?}");
            let r = guard(|| StatisticsOps::extend(&mut h, &full));
            ensure!(matches!(r, Ok(Err(CIError::NonPositiveValue(_)))), format!("C05/{which}/extend_outcome"), "{which}::extend with {bad:?} at position {pos} on a state holding data = {r:?}");
            let mut with_prefix = $ty::<F>::new();
            StatisticsOps::extend(&mut with_prefix, &prior).unwrap();
            for x in &valid[..pos] {
                with_prefix.append(*x).unwrap();
            }
            let hstate = format!("{h:?}");
            ensure!(hstate == held || hstate == format!("{with_prefix:?}"), format!("C05/{which}/extend_state"), "a failing extend on a state holding 3 observations left {hstate}; expected the state unchanged ({held}) or extended by the valid prefix");
            ensure!(h.sample_count() >= 3, format!("C05/{which}/extend_state"), "a failing extend lost accumulated observations: count {}", h.sample_count());
            // (3) one-shot ci on such data returns that error
            let conf = stats_ci::Confidence::new(0.9);
            match call(|| $ty::<F>::ci(conf, &full)) {
                Out::Err(CIError::NonPositiveValue(_)) => {}
                o => return crate::engine::fail(format!("C05/{which}/ci_outcome"), format!("{which}::ci on data with {bad:?} at position {pos}: {}", o.describe())),
            }
            Ok(())
        }
    };
}
reject_impl!(reject_geo, Geometric);
reject_impl!(reject_har, Harmonic);

pub fn reject_case(c: &RejectCase, obs: &mut Obs) -> PResult {
    match (c.f32, c.geometric) {
        (false, true) => reject_geo::<f64>(c, obs),
        (true, true) => reject_geo::<f32>(c, obs),
        (false, false) => reject_har::<f64>(c, obs),
        (true, false) => reject_har::<f32>(c, obs),
    }
}

/// every finite strictly positive observation is accepted, including the top and bottom binades of the type
#[derive(Clone, Debug, Serialize, Deserialize)]
pub struct AcceptCase {
    pub f32: bool,
    pub x: X,
    pub geometric: bool,
}
pub fn accept_case(c: &AcceptCase, obs: &mut Obs) -> PResult {
    fn go<F: Fl>(c: &AcceptCase, obs: &mut Obs) -> PResult {
        let x = F::from64(c.x.0);
        if !(x > F::zero()) || !x.is_finite() {
            return Ok(());
        }
        obs.eval();
        let which = if c.geometric { "Geometric" } else { "Harmonic" };
        let r = guard(|| {
            if c.geometric {
                let mut s = Geometric::<F>::new();
                s.append(F::from64(2.0)).and_then(|_| s.append(x)).map(|_| s.sample_count())
            } else {
                let mut s = Harmonic::<F>::new();
                s.append(F::from64(2.0)).and_then(|_| s.append(x)).map(|_| s.sample_count())
            }
        });
        match r {
            Ok(Ok(2)) => {}
            other => return crate::engine::fail(format!("C05/{which}/rejects_positive_value"), format!("{which}::<{}>::append({x:?}) for a finite strictly positive value: {other:?}", F::NAME)),
        }
        let mag = if x.to64() > 1e30 { "huge" } else if x.to64() < 1e-30 { "tiny" } else { "ordinary" };
        obs.class(&format!("accept/{which}/{mag}"));
        obs.nontrivial(&("accept", F::IS32, c.geometric, c.x.0.to_bits()));
        Ok(())
    }
    if c.f32 {
        go::<f32>(c, obs)
    } else {
        go::<f64>(c, obs)
    }
}

/// Levels at which the reciprocal-space lower bound of a harmonic request is strictly positive but within a relative
/// 10^-3 … 10^-12 of zero: the harmonic upper bound is then huge but finite, and still the reciprocal of that bound.
/// The level is found from the harness' own Student-t CDF: bound = mean_r - c se_r = 0 at c* = mean_r / se_r.
#[derive(Clone, Debug, Serialize, Deserialize)]
pub struct CrossCase {
    pub sample: Sample,
    /// 0 two-sided, 2 lower one-sided (the kinds whose reciprocal-space lower bound is used)
    pub kind: u8,
    /// distance below the crossing level, as a power of ten (3..=12)
    pub decade: u8,
}
pub fn cross_case(c: &CrossCase, obs: &mut Obs) -> PResult {
    let recs: Vec<f64> = c.sample.data.iter().map(|x| if c.sample.f32 { (1.0f32 / x.0 as f32) as f64 } else { 1.0 / x.0 }).collect();
    let r = crate::meanref::MeanRef::new(&recs);
    if !(r.se > 0.0) || c.sample.data.len() < 2 {
        return Ok(());
    }
    let cstar = r.mean / r.se;
    let dof = (c.sample.data.len() - 1) as f64;
    if !(cstar > 0.05 && cstar < 200.0) {
        obs.exclude("zero crossing outside the range of critical values probed (0.05 … 200)");
        return Ok(());
    }
    // critical value slightly below c*: the reciprocal-space bound is mean_r (1 - c / c*) > 0
    let cc = cstar * (1.0 - (10f64).powi(-(c.decade as i32)));
    let p = crate::refmath::t_cdf(dof, cc);
    let level = if c.kind == 0 { 2.0 * p - 1.0 } else { p };
    if !(level > 0.0 && level < 1.0) {
        return Ok(());
    }
    obs.class(&format!("zero_crossing/{}/1e-{}", if c.sample.f32 { "f32" } else { "f64" }, c.decade));
    positive_case(&Case { sample: c.sample.clone(), conf: Conf::new(c.kind, level), style: c.decade % 3 }, obs)
}

pub fn strategy(max_n: usize) -> impl Strategy<Value = Case> {
    // 4 %: vanishing levels (two-sided down to the smallest positive double; one-sided down to 1e-17, below which the
    // Student-t quantile of the dependency gives up)
    let conf = prop_oneof![24 => gen::conf(), 1 => prop::sample::select(vec![Conf::new(0, 1e-17), Conf::new(0, 1e-300), Conf::new(0, 5e-324), Conf::new(1, 1e-17), Conf::new(2, 5e-17), Conf::new(0, 5.5e-17)])];
    (gen::positive_sample(max_n), conf, 0u8..3).prop_map(|(sample, conf, style)| Case { sample, conf, style })
}

pub fn run(run: &mut Run) {
    run.technique = "proptest random search with shrinking; differential oracle = Arithmetic on ln x / 1/x computed with the same primitives (<= 2 ulp), AM-GM-HM chain; exhaustive placement of non-positive values at every position of valid data with a state snapshot".into();
    run.rule = "strictly positive samples (f32/f64, n 2..2000, dynamic range up to 2^±40, near-constant) x confidences x 3 call styles; harmonic requests at levels within a relative 1e-3 … 1e-12 below the level at which the reciprocal-space lower bound reaches zero (found with the harness' own t CDF); non-positive value from {0, -0, -tiny, -1, -inf, -1e300} at every position of valid data of lengths 0..6 (and sampled positions in longer data) for Geometric and Harmonic; non-trivial = non-constant positive data outside the straddle class, and every rejection case".into();
    let (cases, shards, max_n) = match run.tier {
        crate::engine::Tier::Quick => (80_000u32, 32usize, 1000usize),
        crate::engine::Tier::Thorough => (3_200_000, 256, 5000),
    };
    let seed = run.seed_for("positive", 0);
    run.par(shards, |shard, obs| {
        crate::engine::prop_on(obs, "positive", cases / shards as u32, crate::engine::mix(seed, "shard", shard as u64), strategy(max_n), positive_case);
    });
    // levels just below the one at which the reciprocal-space lower bound of the harmonic interval reaches zero
    {
        let s = || (gen::positive_sample(12), prop::sample::select(vec![0u8, 2]), 3u8..=12).prop_map(|(sample, kind, decade)| CrossCase { sample, kind, decade });
        let seed = run.seed_for("zero_crossing", 0);
        let cases = run.tier.pick(16_000u32, 800_000);
        run.par(16, |shard, obs| {
            crate::engine::prop_on(obs, "zero_crossing", cases / 16, crate::engine::mix(seed, "shard", shard as u64), s(), cross_case);
        });
        for c in ["zero_crossing/f32/1e-7", "zero_crossing/f32/1e-9", "zero_crossing/f64/1e-12"] {
            run.require_class(c);
        }
    }
    // geometric mean of data whose magnitude is beyond the square root of the float range (G^2 is not representable,
    // G, ln x and the standard error are ordinary numbers)
    {
        let s = (any::<bool>(), prop::collection::vec(0u32..(1 << 20), 2..=24), 0u32..400, any::<bool>(), gen::conf(), 0u8..3).prop_map(|(f32_, raw, e, down, conf, style)| {
            let base = if f32_ { 66.0 + (e % 50) as f64 } else { 515.0 + e as f64 };
            let data: Vec<f64> = raw
                .iter()
                .map(|r| {
                    let v = (2f64).powf((if down { -base } else { base }) + *r as f64 / (1 << 20) as f64 * 3.0);
                    if f32_ {
                        (v as f32) as f64
                    } else {
                        v
                    }
                })
                .collect();
            Case { sample: Sample { f32: f32_, shape: "geometric-only/extreme".into(), data: crate::fl::xs(&data) }, conf, style }
        });
        run.prop("geometric_extreme", run.tier.pick(6_000, 300_000), s, positive_case);
        run.require_class("geometric_extreme/f32");
        run.require_class("geometric_extreme/f64");
    }
    // rejections: every position of short valid data, sampled positions of longer data
    let base: Vec<f64> = vec![0.5, 3.0, 0.125, 7.25, 1.0, 1e-3, 2e3, 0.75, 9.5, 4.0];
    for f32_ in [false, true] {
        for geometric in [true, false] {
            for len in 0..=6usize {
                for pos in 0..=len {
                    for &bad in BAD_VALUES.iter() {
                        let bad = if f32_ && bad == -5e-324 { -(f32::from_bits(1) as f64) } else if f32_ && bad == -1e300 { -1e30 } else { bad };
                        run.case("reject", &RejectCase { f32: f32_, valid: crate::fl::xs(&base[..len]), bad: X(bad), pos, geometric }, reject_case);
                    }
                }
            }
            let long: Vec<f64> = (0..200).map(|i| 0.25 + (i % 17) as f64 * 0.5).collect();
            for pos in [0usize, 1, 50, 199, 200] {
                for &bad in &[0.0, -1.0] {
                    run.case("reject", &RejectCase { f32: f32_, valid: crate::fl::xs(&long), bad: X(bad), pos, geometric }, reject_case);
                }
            }
        }
    }
    // acceptance of every finite positive value: all binades of both types, at and next to the extremes
    for f32_ in [false, true] {
        let (emin, emax) = if f32_ { (-149, 127) } else { (-1074, 1023) };
        for geometric in [true, false] {
            for e in emin..=emax {
                for m in [1.0, 1.5, 1.9999999] {
                    let v = crate::fl::pow2(e) * m;
                    let v = if f32_ { (v as f32) as f64 } else { v };
                    run.case("accept", &AcceptCase { f32: f32_, x: X(v), geometric }, accept_case);
                }
            }
            for v in [f64::MAX, f64::MIN_POSITIVE, 5e-324, 4.5e307, f32::MAX as f64, f32::MIN_POSITIVE as f64, 8.6e37] {
                run.case("accept", &AcceptCase { f32: f32_, x: X(v), geometric }, accept_case);
            }
        }
    }
    for c in ["accept/Geometric/huge", "accept/Harmonic/huge", "accept/Harmonic/tiny", "nontrivial/f32", "nontrivial/f64", "harmonic/straddle", "reject/Geometric/first", "reject/Geometric/middle", "reject/Geometric/last", "reject/Harmonic/first", "reject/Harmonic/middle", "reject/Harmonic/last", "shape/positive/spread0", "shape/positive/spread4"] {
        run.require_class(c);
    }
    run.assumptions.push("the standard error referred to is the crate's documented Arithmetic::sample_sem in the transformed space (it divides by sqrt(n-1)); it is taken from Arithmetic, not recomputed".into());
    run.assumptions.push("harmonic intervals whose reciprocal-space bound is <= 0 are outside the stated domain: counted as 'straddle', not checked".into());
    run.assumptions.push("after a failing extend the state may be unchanged or hold the valid prefix (extend is documented as a loop of append)".into());
    crate::props::history::add(run, "C05", &[crate::props::history::GEO, crate::props::history::HARM, crate::props::history::ARITH], 3_000, 200_000);
}

pub fn replay(sub: &str, v: &Value, obs: &mut Obs) -> Option<PResult> {
    Some(match sub {
        "history" => crate::props::history::case(&de(v), obs),
        "positive" | "geometric_extreme" => positive_case(&de(v), obs),
        "zero_crossing" => cross_case(&de(v), obs),
        "reject" => reject_case(&de(v), obs),
        "accept" => accept_case(&de(v), obs),
        _ => return None,
    })
}
