//! Call-history independence (shared by C01–C06, C10): every interval-producing entry point is a pure function
//! of its arguments. A generated *sequence* of calls is executed on one thread; each call is repeated on a
//! freshly spawned thread (empty thread-local state, nothing computed before it) and the two outcomes must be
//! bit-identical. The sequences are built to collide on whatever a memo or cache might be keyed by: equal
//! sample sizes with different data, levels that are equal / mirrored (L, 1−L) / adjacent doubles / the
//! one-sided equivalent of a two-sided level, kinds that differ at an equal level, real-valued degrees of
//! freedom with a common integer part, counts that share n or k.
//!
//! The per-call *values* are checked by the owning property's reference oracle elsewhere; here the oracle is
//! the differential "same call, no history".

use crate::engine::{Obs, PResult, Run};
use crate::fl::{next_down, next_up, X};
use crate::model::{call, Conf, Out};
use proptest::prelude::*;
use serde::{Deserialize, Serialize};
use serde_json::json;
use stats_ci::comparison::{Paired, Unpaired};
use stats_ci::mean::{Arithmetic, Geometric, Harmonic};
use stats_ci::{proportion, quantile};

// producer families
pub const ARITH: u8 = 0;
pub const GEO: u8 = 1;
pub const HARM: u8 = 2;
pub const PAIRED: u8 = 3;
pub const UNPAIRED: u8 = 4;
pub const WILSON: u8 = 5;
pub const WALD: u8 = 6;
pub const QUANT: u8 = 7;
pub const QIDX: u8 = 8;
pub const PSTATS: u8 = 9;
pub const ALL: [u8; 10] = [ARITH, GEO, HARM, PAIRED, UNPAIRED, WILSON, WALD, QUANT, QIDX, PSTATS];
const NAMES: [&str; 10] = ["Arithmetic::ci", "Geometric::ci", "Harmonic::ci", "Paired::ci", "Unpaired::ci", "proportion::ci", "proportion::ci_z_normal", "quantile::ci", "quantile::ci_indices", "proportion::Stats::ci"];

#[derive(Clone, Debug, Serialize, Deserialize)]
pub struct Step {
    /// index into the history's family list
    pub what: u8,
    /// indices into the data pool
    pub i: u8,
    pub j: u8,
    /// how this call's level derives from the base level (see `vary`)
    pub var: u8,
    pub kind: u8,
    /// selects the scale of the second sample (unpaired), the count pair (proportion), or q (quantile)
    pub alt: u8,
}

#[derive(Clone, Debug, Serialize, Deserialize)]
pub struct Hist {
    pub prop: String,
    pub families: Vec<u8>,
    pub f32: bool,
    /// common length of the pool samples
    pub n: usize,
    /// three samples of n+1 values (calls use the first n, or all n+1)
    pub pool: Vec<Vec<X>>,
    pub base_level: X,
    pub n_count: u64,
    pub k_count: u64,
    pub steps: Vec<Step>,
}

/// derive a level from the base level
pub fn vary(base: f64, var: u8, kind: u8) -> f64 {
    let l = match var % 9 {
        0 => base,
        1 => 1.0 - base,
        2 => next_up(base),
        3 => next_down(base),
        // the one-sided level with the same quantile as two-sided `base`, and the reverse
        4 => {
            if kind == 0 {
                base
            } else {
                (1.0 + base) / 2.0
            }
        }
        5 => {
            if kind == 0 && base > 0.5 {
                2.0 * base - 1.0
            } else {
                (1.0 - base) / 2.0
            }
        }
        6 => 1.0 - (1.0 + base) / 2.0,
        7 => next_up(next_up(base)),
        _ => 0.5 + (base - 0.5) * 0.75,
    };
    if l > 0.0 && l < 1.0 {
        l
    } else {
        base
    }
}

#[derive(Clone, Debug)]
struct Concrete {
    fam: u8,
    f32: bool,
    a: Vec<f64>,
    b: Vec<f64>,
    n: u64,
    k: u64,
    q: f64,
    conf: Conf,
}

fn concretise(h: &Hist, s: &Step) -> Concrete {
    let fam = h.families[(s.what as usize) % h.families.len()];
    let pool = |i: u8, longer: bool| -> Vec<f64> {
        let d = &h.pool[(i as usize) % h.pool.len()];
        let m = if longer { d.len() } else { d.len().saturating_sub(1) };
        d[..m].iter().map(|x| x.0).collect()
    };
    let cast = |v: Vec<f64>| -> Vec<f64> { if h.f32 { v.into_iter().map(|x| (x as f32) as f64).collect() } else { v } };
    let conf = Conf::new(s.kind % 3, vary(h.base_level.0, s.var, s.kind % 3));
    let mut a = pool(s.i, s.alt & 8 != 0 && fam != PAIRED);
    let mut b = vec![];
    let (mut n, mut k, mut q) = (0u64, 0u64, 0.5f64);
    match fam {
        GEO | HARM => {
            a = a.into_iter().map(|x| x.abs() + 0.0009765625).collect();
        }
        PAIRED => {
            b = pool(s.j, false);
        }
        UNPAIRED => {
            // second sample: another pool sample (possibly one longer), rescaled so that the effective degrees of
            // freedom move within a band
            let scale = [1.0, 0.55, 0.6, 0.5, 0.61, 2.0, 0.05, 1.0][(s.alt & 7) as usize];
            b = pool(s.j, s.alt & 16 != 0).into_iter().map(|x| 10.0 + scale * x).collect();
        }
        WILSON | WALD | PSTATS => {
            n = h.n_count + (s.alt & 1) as u64;
            k = (h.k_count + ((s.alt >> 1) & 1) as u64).min(n);
            if s.alt & 4 != 0 {
                k = n - k;
            }
        }
        QUANT | QIDX => {
            q = [0.5, 0.25, 0.1, 0.9, 0.75, 0.5, 0.3, 0.99][(s.alt & 7) as usize];
            // adjacent doubles of q: q n may sit exactly on a rounding boundary of the rank
            q = match (s.alt >> 4) & 3 {
                1 => next_down(q),
                2 => next_up(q),
                _ => q,
            };
            n = h.n_count + (s.alt & 8 != 0) as u64;
        }
        _ => {}
    }
    Concrete { fam, f32: h.f32, a: cast(a), b: cast(b), n, k, q, conf }
}

fn show<F: crate::fl::Fl>(o: Out<stats_ci::Interval<F>>) -> String {
    match o {
        Out::Ok(i) => {
            let (k, lo, hi) = crate::model::bounds(&i);
            format!("Ok(kind {k}, {:#018x}, {:#018x}) = {i:?}", lo.to_bits(), hi.to_bits())
        }
        Out::Err(e) => format!("Err({e:?})"),
        Out::Panic(p) => format!("panic: {p}"),
    }
}

fn exec_f<F: crate::fl::Fl>(c: &Concrete) -> String {
    let conf = c.conf.get();
    let a: Vec<F> = c.a.iter().map(|x| F::from64(*x)).collect();
    let b: Vec<F> = c.b.iter().map(|x| F::from64(*x)).collect();
    match c.fam {
        ARITH => show(call(|| Arithmetic::<F>::ci(conf, &a))),
        GEO => show(call(|| Geometric::<F>::ci(conf, &a))),
        HARM => show(call(|| Harmonic::<F>::ci(conf, &a))),
        PAIRED => show(call(|| Paired::<F>::ci(conf, &a, &b))),
        UNPAIRED => show(call(|| Unpaired::<F>::ci(conf, &a, &b))),
        QUANT => show(call(|| quantile::ci(conf, &a, c.q))),
        _ => unreachable!(),
    }
}

fn exec(c: &Concrete) -> String {
    let conf = c.conf.get();
    match c.fam {
        WILSON => show::<f64>(call(|| proportion::ci(conf, c.n as usize, c.k as usize))),
        WALD => show::<f64>(call(|| proportion::ci_z_normal(conf, c.n as usize, c.k as usize))),
        PSTATS => show::<f64>(call(|| {
            let mut s = proportion::Stats::default();
            for _ in 0..c.k.min(4096) {
                s.add_success();
            }
            for _ in 0..(c.n - c.k).min(4096) {
                s.add_failure();
            }
            s.ci(conf)
        })),
        QIDX => match call(|| quantile::ci_indices(conf, c.n as usize, c.q)) {
            Out::Ok(i) => format!("Ok({i:?})"),
            Out::Err(e) => format!("Err({e:?})"),
            Out::Panic(p) => format!("panic: {p}"),
        },
        _ => {
            if c.f32 {
                exec_f::<f32>(c)
            } else {
                exec_f::<f64>(c)
            }
        }
    }
}

fn fresh(c: &Concrete) -> String {
    let c2 = c.clone();
    std::thread::Builder::new().stack_size(256 * 1024).spawn(move || exec(&c2)).expect("spawn").join().unwrap_or_else(|_| "panic: (escaped)".into())
}

fn describe(c: &Concrete) -> String {
    match c.fam {
        WILSON | WALD | PSTATS => format!("{}({:?}, n={}, k={})", NAMES[c.fam as usize], c.conf, c.n, c.k),
        QIDX => format!("{}({:?}, n={}, q={})", NAMES[c.fam as usize], c.conf, c.n, c.q),
        QUANT => format!("{}<{}>({:?}, {} values, q={})", NAMES[c.fam as usize], if c.f32 { "f32" } else { "f64" }, c.conf, c.a.len(), c.q),
        PAIRED | UNPAIRED => format!("{}<{}>({:?}, a = {:?}, b = {:?})", NAMES[c.fam as usize], if c.f32 { "f32" } else { "f64" }, c.conf, short(&c.a), short(&c.b)),
        _ => format!("{}<{}>({:?}, {:?})", NAMES[c.fam as usize], if c.f32 { "f32" } else { "f64" }, c.conf, short(&c.a)),
    }
}
fn short(v: &[f64]) -> String {
    if v.len() <= 8 {
        format!("{v:?}")
    } else {
        format!("[{} values: {:?} …]", v.len(), &v[..4])
    }
}

fn oracle(c: &Concrete, obs: &mut Obs) -> PResult {
    use crate::gen::Sample;
    let l = c.conf.l();
    let in_t_range = (0.001..=0.9999).contains(&l);
    let sample = |v: &Vec<f64>| Sample { f32: c.f32, shape: "history".into(), data: crate::fl::xs(v) };
    match c.fam {
        ARITH if in_t_range && c.a.len() >= 2 => crate::props::c01::case(&crate::props::c01::Case { sample: sample(&c.a), conf: c.conf, style: 0, cuts: vec![] }, obs),
        PAIRED if in_t_range && c.a.len() >= 2 => crate::props::c04::paired_case(&crate::props::c04::Case { a: sample(&c.a), b: sample(&c.b), conf: c.conf, style: 0, cuts: vec![] }, obs),
        UNPAIRED if in_t_range && c.a.len() >= 2 && c.b.len() >= 2 => crate::props::c04::unpaired_case(&crate::props::c04::Case { a: sample(&c.a), b: sample(&c.b), conf: c.conf, style: 0, cuts: vec![] }, obs),
        GEO | HARM if in_t_range && c.a.len() >= 2 => crate::props::c05::positive_case(&crate::props::c05::Case { sample: sample(&c.a), conf: c.conf, style: 0 }, obs),
        WILSON if l >= 1e-12 && l <= 1.0 - 1e-8 => crate::props::c02::case(&crate::props::c02::Case { n: c.n, k: c.k, conf: c.conf, front: 0, pattern: 0 }, obs),
        WALD if in_t_range => crate::props::c02::case(&crate::props::c02::Case { n: c.n, k: c.k, conf: c.conf, front: crate::props::c02::WALD, pattern: 0 }, obs),
        QIDX if in_t_range => crate::props::c03::rank_case(&crate::props::c03::RankCase { n: c.n, q: X(c.q), conf: c.conf, entry: 0 }, obs),
        _ => Ok(()),
    }
}

pub fn case(h: &Hist, obs: &mut Obs) -> PResult {
    let mut prev: Option<String> = None;
    let mut colliding = 0;
    let mut last: Option<Concrete> = None;
    for s in &h.steps {
        let c = concretise(h, s);
        obs.eval();
        let got = exec(&c);
        let want = fresh(&c);
        if got != want {
            return crate::engine::fail(
                format!("{}/history/{}", h.prop, NAMES[c.fam as usize]),
                format!(
                    "the answer depends on the calls made before it: {} returned {got} after [{}], but {want} when it is the first call on a fresh thread",
                    describe(&c),
                    prev.clone().unwrap_or_else(|| "calls of earlier sequences on this thread".into())
                ),
            );
        }
        // the value itself, against the owning property's reference oracle, evaluated at this point of the history
        // (this is what would expose state shared between threads, which the fresh-thread comparison cannot see)
        oracle(&c, obs).map_err(|f| crate::engine::Fail {
            sig: format!("{}/history/{}", h.prop, f.sig),
            msg: format!("in a call history, after [{}]: {}", prev.clone().unwrap_or_else(|| "calls of earlier sequences on this thread".into()), f.msg),
        })?;
        if let Some(l) = &last {
            let same_size = l.a.len() == c.a.len() && l.n == c.n;
            let related = l.conf.l() == c.conf.l() || (l.conf.l() - (1.0 - c.conf.l())).abs() < 1e-12 || (l.conf.l() - c.conf.l()).abs() < 1e-12 || l.conf.target() == c.conf.target();
            if same_size || related {
                colliding += 1;
            }
        }
        prev = Some(describe(&c));
        last = Some(c);
    }
    obs.class(&format!("history/len{}", h.steps.len().min(8)));
    if colliding > 0 {
        obs.class("history/with-colliding-neighbours");
        obs.nontrivial(&crate::engine::hash_of(&serde_json::to_string(h).unwrap_or_default()));
    }
    if obs.wants_sample("history") {
        obs.sample("history", || json!({"families": h.families.iter().map(|f| NAMES[*f as usize]).collect::<Vec<_>>(), "n": h.n, "base_level": h.base_level, "steps": h.steps.len(), "colliding_neighbours": colliding}));
    }
    Ok(())
}

pub fn strategy(prop: &'static str, families: &'static [u8]) -> impl Strategy<Value = Hist> {
    let base = prop_oneof![
        4 => crate::gen::level(),
        2 => prop::sample::select(vec![0.5, 0.9, 0.95, 0.99, 0.75, 0.25, 0.05, 0.1, 0.8]),
        // next to 1 and next to 0, where the quantile is most sensitive to one ulp of the level
        1 => (1u32..=60).prop_map(|e| 1.0 - (2f64).powi(-(e as i32).min(53))),
        1 => (1u32..=300).prop_map(|e| (10f64).powi(-(e as i32))),
    ];
    // raw step plus a mask saying which fields are redrawn; the other fields are inherited from the previous step,
    // so that consecutive calls typically differ in one or two arguments only
    let step = (0u8..16, 0u8..3, 0u8..3, 0u8..9, 0u8..3, any::<u8>(), any::<u8>(), any::<u8>()).prop_map(|(what, i, j, var, kind, alt, m1, m2)| (Step { what, i, j, var, kind, alt }, m1 & m2));
    (any::<bool>(), 2usize..=40, base, 4u64..3000, any::<u16>(), prop::collection::vec(step, 2..=8), any::<u64>()).prop_flat_map(move |(f32_, n, base_level, n_count, kr, steps, _)| {
        let pool = prop::collection::vec(prop::collection::vec(-(1i32 << 20)..=(1i32 << 20), (n + 1)..=(n + 1)), 3..=3);
        (Just((f32_, n, base_level, n_count, kr, steps)), pool, 0u32..24).prop_map(move |((f32_, n, base_level, n_count, kr, steps), raw, kappa)| {
            let offset = if kappa == 0 { 0.0 } else { (2f64).powi(kappa as i32 - 8) };
            let pool: Vec<Vec<X>> = raw.iter().map(|v| v.iter().map(|r| X(offset + *r as f64 / 4096.0)).collect()).collect();
            let k_count = ((kr as u64 * (n_count + 1)) >> 16).min(n_count);
            let mut out: Vec<Step> = vec![];
            for (raw, mask) in steps.iter() {
                let st = match out.last() {
                    None => raw.clone(),
                    Some(p) => {
                        let pick = |bit: u8, new: u8, old: u8| if mask & (1 << bit) != 0 { new } else { old };
                        // alt is three independent fields: bits 0-2, bit 3, bits 4-5 (bits 6-7 follow bit 3)
                        let alt = (pick(5, raw.alt, p.alt) & 0x07) | (pick(6, raw.alt, p.alt) & 0xc8) | (pick(7, raw.alt, p.alt) & 0x30);
                        Step { what: pick(0, raw.what, p.what), i: pick(1, raw.i, p.i), j: pick(2, raw.j, p.j), var: pick(3, raw.var, p.var), kind: pick(4, raw.kind, p.kind), alt }
                    }
                };
                out.push(st);
            }
            let steps = out;
            Hist { prop: prop.to_string(), families: families.to_vec(), f32: f32_, n, pool, base_level: X(base_level), n_count, k_count, steps }
        })
    })
}

/// register the history sub-check for `prop` over the given producer families
pub fn add(run: &mut Run, prop: &'static str, families: &'static [u8], quick: u32, thorough: u32) {
    let cases = run.tier.pick(quick, thorough);
    let shards = 16usize;
    let seed = run.seed_for("history", 0);
    run.par(shards, |shard, obs| {
        crate::engine::prop_on(obs, "history", cases / shards as u32, crate::engine::mix(seed, "shard", shard as u64), strategy(prop, families), case);
    });
    run.require_class("history/with-colliding-neighbours");
    run.assumptions.push("history sub-check: a call is compared bit for bit with the same call made first on a freshly spawned thread; and, for levels in the range the reference oracles cover, its value is also checked at that point of the history by the owning property's oracle (which is what exposes state shared between threads)".into());
}
