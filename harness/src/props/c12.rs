//! C12 — exact binomial coverage of proportion and quantile intervals is near nominal.
//! Coverage is summed over all outcomes with the harness' own binomial pmf, never sampled.

use crate::engine::{Obs, PResult, Run};
use crate::model::{call, Conf, Out};
use crate::props::de;
use crate::refmath::binom_pmf;
use serde::{Deserialize, Serialize};
use serde_json::{json, Value};
use stats_ci::{proportion, quantile, Interval};

pub const LEVELS: [f64; 4] = [0.8, 0.9, 0.95, 0.99];
const P_POINTS: usize = 801;
const Q_POINTS: usize = 397;
const NEAR: f64 = 1e-9;

#[derive(Clone, Debug, Serialize, Deserialize)]
pub struct Case {
    pub n: u64,
    pub conf: Conf,
}

// documented slack laws (DESIGN C12; frozen, derived from the mathematical construction)
pub fn prop_mean_slack(n: u64) -> f64 {
    0.0015 + 0.08 / n as f64
}
pub fn prop_min_slack(level: f64) -> f64 {
    0.45 * (1.0 - level) + 0.015
}
pub fn quant_point_slack(n: u64, q: f64) -> f64 {
    0.6 / (n as f64 * q * (1.0 - q)).sqrt()
}
pub fn quant_mean_slack(n: u64) -> f64 {
    0.55 / (n as f64).sqrt() + 0.002
}

/// sum of pmf over outcomes selected by `covered`; returns (favourable-high, favourable-low) when some
/// outcomes are within NEAR of a boundary
fn cover(pmf: &[f64], mut covered: impl FnMut(usize) -> (bool, bool)) -> (f64, f64) {
    let (mut hi, mut lo) = (0.0f64, 0.0f64);
    for (k, &w) in pmf.iter().enumerate() {
        if w < 1e-300 {
            continue;
        }
        let (c, near) = covered(k);
        if near {
            hi += w;
        } else if c {
            hi += w;
            lo += w;
        }
    }
    (hi, lo)
}

pub fn proportion_case(c: &Case, obs: &mut Obs) -> PResult {
    let n = c.n as usize;
    let level = c.conf.l();
    let kn = c.conf.kind_name();
    let conf = c.conf.get();
    // intervals for all outcomes; errors are misses
    let mut bounds: Vec<Option<(f64, f64)>> = Vec::with_capacity(n + 1);
    for k in 0..=n {
        match call(|| proportion::ci(conf, n, k)) {
            Out::Ok(Interval::TwoSided(a, b)) => bounds.push(Some((a, b))),
            Out::Ok(other) => return crate::engine::fail("C12/proportion/kind", format!("ci({:?}, {n}, {k}) = {other:?}", c.conf)),
            Out::Err(_) => bounds.push(None),
            Out::Panic(p) => return crate::engine::fail("C12/proportion/panic", format!("ci({:?}, {n}, {k}) panicked: {p}", c.conf)),
        }
    }
    obs.evals((n + 1) as u64);
    // the success-ratio front-end builds the same intervals from k / n (it must imply the same count)
    if n <= 2600 {
        for k in 1..=n {
            if let (Some((a, b)), Out::Ok(Interval::TwoSided(ra, rb))) = (bounds[k], call(|| proportion::ci_wilson_ratio(conf, n, k as f64 / n as f64))) {
                ensure!(a.to_bits() == ra.to_bits() && b.to_bits() == rb.to_bits(), "C12/proportion/ratio_front_end", "ci_wilson_ratio({:?}, {n}, {k}/{n}) = [{ra:e}, {rb:e}] but ci({n}, {k}) = [{a:e}, {b:e}]: the coverage of the ratio form is that of another count", c.conf);
            }
        }
        obs.evals(n as u64);
    }
    // the mathematical Wilson construction at the same n, level and kind (own normal quantile, closed form):
    // the crate's coverage may not dip more than 0.01 below the construction's own worst dip, nor may its mean
    // over p differ from the construction's by more than 5e-4 (second, sharper documented law; see DESIGN C12)
    let z = crate::meanref::crit_z(&c.conf).c;
    let reference: Vec<Option<(f64, f64)>> = (0..=n)
        .map(|k| {
            if k < 2 || n - k < 2 {
                return None;
            }
            let (nf, kf, ff) = (n as f64, k as f64, (n - k) as f64);
            let z2 = z * z;
            let center = (kf + z2 / 2.0) / (nf + z2);
            let span = z / (nf + z2) * (kf * ff / nf + z2 / 4.0).sqrt();
            Some(match c.conf.kind {
                0 => (center - span.abs(), center + span.abs()),
                1 => (center - span, 1.0),
                _ => (0.0, center + span),
            })
        })
        .collect();
    let (mut rsum_hi, mut rsum_lo) = (0.0, 0.0);
    let mut rworst = f64::INFINITY;
    let lo_p = 10.0 / n as f64;
    let hi_p = 1.0 - lo_p;
    if !(lo_p < hi_p) {
        return Ok(());
    }
    let (mut sum_hi, mut sum_lo) = (0.0, 0.0);
    let mut worst_min = (f64::INFINITY, 0.0f64);
    let mut nontrivial = 0u64;
    for i in 0..P_POINTS {
        let p = lo_p + (hi_p - lo_p) * i as f64 / (P_POINTS - 1) as f64;
        let pmf = binom_pmf(n, p);
        let (ch, cl) = cover(&pmf, |k| match bounds[k] {
            None => (false, false),
            Some((a, b)) => {
                let near = (p - a).abs() <= NEAR || (p - b).abs() <= NEAR;
                (a <= p && p <= b, near)
            }
        });
        let (rh, rl) = cover(&pmf, |k| match reference[k] {
            None => (false, false),
            Some((a, b)) => {
                let near = (p - a).abs() <= NEAR || (p - b).abs() <= NEAR;
                (a <= p && p <= b, near)
            }
        });
        rsum_hi += rh;
        rsum_lo += rl;
        rworst = rworst.min(rl);
        obs.eval();
        sum_hi += ch;
        sum_lo += cl;
        if ch < worst_min.0 {
            worst_min = (ch, p);
        }
        if ch > 0.001 && cl < 0.9999 {
            nontrivial += 1;
        }
    }
    obs.nontrivial_enum(nontrivial);
    let mean_hi = sum_hi / P_POINTS as f64;
    let mean_lo = sum_lo / P_POINTS as f64;
    let ms = prop_mean_slack(c.n);
    obs.headroom(&format!("proportion/mean/{kn}"), ((mean_hi - level).abs().min((mean_lo - level).abs())) / ms, || json!({"n": n, "conf": c.conf, "mean_coverage": mean_hi}));
    ensure!(mean_hi >= level - ms, format!("C12/proportion/mean_coverage_low/{kn}"), "n={n}, {:?}: coverage averaged over p in [10/n, 1-10/n] is {mean_hi:.6}, nominal {level} (slack {ms:.5})", c.conf);
    ensure!(mean_lo <= level + ms, format!("C12/proportion/mean_coverage_high/{kn}"), "n={n}, {:?}: coverage averaged over p in [10/n, 1-10/n] is {mean_lo:.6}, nominal {level} (slack {ms:.5})", c.conf);
    let floor = level - prop_min_slack(level);
    obs.headroom(&format!("proportion/min/{kn}"), (level - worst_min.0).max(0.0) / prop_min_slack(level), || json!({"n": n, "conf": c.conf, "min_coverage": worst_min.0, "at_p": worst_min.1}));
    ensure!(worst_min.0 >= floor, format!("C12/proportion/min_coverage/{kn}"), "n={n}, {:?}: coverage {:.6} at p={:.6} is below the documented floor {floor:.4}", c.conf, worst_min.0, worst_min.1);
    // against the construction
    let (rmean_hi, rmean_lo) = (rsum_hi / P_POINTS as f64, rsum_lo / P_POINTS as f64);
    ensure!(worst_min.0 >= rworst - 0.01, format!("C12/proportion/min_vs_construction/{kn}"), "n={n}, {:?}: coverage dips to {:.5} at p={:.6}; the exact Wilson construction never goes below {rworst:.5} at this n (allowed 0.01 below that)", c.conf, worst_min.0, worst_min.1);
    ensure!(mean_hi >= rmean_lo - 5e-4 && mean_lo <= rmean_hi + 5e-4, format!("C12/proportion/mean_vs_construction/{kn}"), "n={n}, {:?}: mean coverage {mean_hi:.6} differs from that of the exact Wilson construction {rmean_lo:.6} by more than 5e-4", c.conf);
    obs.headroom(&format!("proportion/min_vs_construction/{kn}"), (rworst - worst_min.0).max(0.0) / 0.01, || json!({"n": n, "conf": c.conf, "min_coverage": worst_min.0, "construction_min": rworst}));
    obs.class(&format!("proportion/{kn}/L{level}"));
    if obs.wants_sample(&format!("proportion/{kn}")) {
        obs.sample(&format!("proportion/{kn}"), || json!({"n": n, "conf": c.conf, "mean_coverage": mean_hi, "min_coverage": worst_min.0, "min_at_p": worst_min.1, "p_points": P_POINTS}));
    }
    Ok(())
}

pub fn quantile_case(c: &Case, obs: &mut Obs) -> PResult {
    let n = c.n as usize;
    let level = c.conf.l();
    let kn = c.conf.kind_name();
    let conf = c.conf.get();
    let (mut sum, mut cnt) = (0.0, 0usize);
    let mut nontrivial = 0u64;
    let mut worst = 0.0f64;
    for i in 0..Q_POINTS {
        let q = 0.005 + 0.99 * i as f64 / (Q_POINTS - 1) as f64;
        if (n as f64) * q < 10.0 || (n as f64) * (1.0 - q) < 10.0 {
            continue;
        }
        obs.eval();
        let ranks = match call(|| quantile::ci_indices(conf, n, q)) {
            Out::Ok(i) => i,
            Out::Err(e) => return crate::engine::fail("C12/quantile/rejected", format!("ci_indices({:?}, {n}, {q}) = Err({e:?}) inside n q >= 10, n (1-q) >= 10", c.conf)),
            Out::Panic(p) => return crate::engine::fail("C12/quantile/panic", format!("ci_indices({:?}, {n}, {q}) panicked: {p}", c.conf)),
        };
        let (lo, hi) = match ranks {
            Interval::TwoSided(a, b) => (Some(a), Some(b)),
            Interval::UpperOneSided(a) => (Some(a), None),
            Interval::LowerOneSided(b) => (None, Some(b)),
        };
        let pmf = binom_pmf(n, q);
        // B = number of observations below the true quantile; covered iff lo+1 <= B <= hi
        let (cov, _) = cover(&pmf, |b| (lo.map(|l| b >= l + 1).unwrap_or(true) && hi.map(|h| b <= h).unwrap_or(true), false));
        let slack = quant_point_slack(c.n, q);
        let dev = (cov - level).abs();
        worst = worst.max(dev / slack);
        obs.headroom(&format!("quantile/pointwise/{kn}"), dev / slack, || json!({"n": n, "q": q, "conf": c.conf, "coverage": cov}));
        ensure!(dev <= slack, format!("C12/quantile/pointwise/{kn}"), "n={n}, q={q:.4}, {:?}: distribution-free coverage of ranks {ranks:?} is {cov:.5}, nominal {level} (slack {slack:.4})", c.conf);
        sum += cov;
        cnt += 1;
        if cov > 0.001 && cov < 0.9999 {
            nontrivial += 1;
        }
    }
    obs.nontrivial_enum(nontrivial);
    if cnt >= 20 {
        let mean = sum / cnt as f64;
        let ms = quant_mean_slack(c.n);
        obs.headroom(&format!("quantile/mean/{kn}"), (mean - level).abs() / ms, || json!({"n": n, "conf": c.conf, "mean_coverage": mean, "q_points": cnt}));
        ensure!((mean - level).abs() <= ms, format!("C12/quantile/mean/{kn}"), "n={n}, {:?}: coverage averaged over {cnt} values of q is {mean:.5}, nominal {level} (slack {ms:.4})", c.conf);
        if obs.wants_sample(&format!("quantile/{kn}")) {
            obs.sample(&format!("quantile/{kn}"), || json!({"n": n, "conf": c.conf, "mean_coverage": mean, "q_points": cnt, "worst_pointwise_dev_over_slack": worst}));
        }
    }
    obs.class(&format!("quantile/{kn}/L{level}"));
    Ok(())
}

/// windowed binomial pmf for k in 0..=kmax (n huge, n p moderate); the mass beyond the window is < 1e-25
fn binom_window(n: u64, p: f64, kmax: usize) -> Vec<f64> {
    let mut v = vec![0.0f64; kmax + 1];
    let mode = (((n + 1) as f64) * p).floor().min(kmax as f64) as usize;
    v[mode] = 1.0;
    let r = p / (1.0 - p);
    for k in mode..kmax {
        v[k + 1] = v[k] * ((n - k as u64) as f64 / (k + 1) as f64) * r;
    }
    for k in (1..=mode).rev() {
        v[k - 1] = v[k] * (k as f64 / (n - k as u64 + 1) as f64) / r;
    }
    let s: f64 = v.iter().sum();
    for x in v.iter_mut() {
        *x /= s;
    }
    v
}

const RARE_POINTS: usize = 381;
const RARE_KMAX: usize = 460;

/// rare events on huge populations: n p (or n (1-p)) between 10 and 200 with n up to 10^12, where only a
/// window of outcomes carries mass; same pointwise laws as the grid check
pub fn rare_case(c: &Case, obs: &mut Obs) -> PResult {
    let n = c.n;
    let level = c.conf.l();
    let kn = c.conf.kind_name();
    let conf = c.conf.get();
    let z = crate::meanref::crit_z(&c.conf).c;
    let wilson = |k: u64| -> Option<(f64, f64)> {
        if k < 2 || n - k < 2 {
            return None;
        }
        let (nf, kf, ff) = (n as f64, k as f64, (n - k) as f64);
        let z2 = z * z;
        let center = (kf + z2 / 2.0) / (nf + z2);
        let span = z / (nf + z2) * (kf * ff / nf + z2 / 4.0).sqrt();
        Some(match c.conf.kind {
            0 => (center - span.abs(), center + span.abs()),
            1 => (center - span, 1.0),
            _ => (0.0, center + span),
        })
    };
    for mirrored in [false, true] {
        let kof = |j: usize| if mirrored { n - j as u64 } else { j as u64 };
        let mut bounds: Vec<Option<(f64, f64)>> = Vec::with_capacity(RARE_KMAX + 1);
        for j in 0..=RARE_KMAX {
            let k = kof(j) as usize;
            match call(|| proportion::ci(conf, n as usize, k)) {
                Out::Ok(Interval::TwoSided(a, b)) => bounds.push(Some((a, b))),
                Out::Ok(other) => return crate::engine::fail("C12/proportion/kind", format!("ci({:?}, {n}, {k}) = {other:?}", c.conf)),
                Out::Err(_) => bounds.push(None),
                Out::Panic(p) => return crate::engine::fail("C12/proportion/panic", format!("ci({:?}, {n}, {k}) panicked: {p}", c.conf)),
            }
        }
        obs.evals((RARE_KMAX + 1) as u64);
        let reference: Vec<Option<(f64, f64)>> = (0..=RARE_KMAX).map(|j| wilson(kof(j))).collect();
        let mut nontrivial = 0;
        for i in 0..RARE_POINTS {
            let lambda = 10.0 + 0.5 * i as f64 + 0.013 * (i % 7) as f64;
            // probability of the rare outcome; on the mirrored side it is recomputed from the rounded p so that
            // the pmf and the coverage test refer to the same representable p
            let p = if mirrored { 1.0 - lambda / n as f64 } else { lambda / n as f64 };
            let ptail = if mirrored { 1.0 - p } else { p };
            let lambda = ptail * n as f64;
            let pmf = binom_window(n, ptail, RARE_KMAX);
            let near = NEAR * ptail; // relative band: the bounds themselves are of order lambda/n
            let cov = |b: &Vec<Option<(f64, f64)>>| {
                cover(&pmf, |j| match b[j] {
                    None => (false, false),
                    Some((a, bb)) => ((a <= p && p <= bb), (p - a).abs() <= near || (p - bb).abs() <= near),
                })
            };
            let (ch, cl) = cov(&bounds);
            let (_rh, rl) = cov(&reference);
            obs.eval();
            let floor = level - prop_min_slack(level);
            let side = if mirrored { "common" } else { "rare" };
            ensure!(ch >= floor, format!("C12/proportion_rare/min_coverage/{kn}"), "n={n}, p={p:e} (n p or n q = {lambda:.3}, {side} successes), {:?}: coverage {ch:.6} is below the documented floor {floor:.4}", c.conf);
            ensure!(ch >= rl - 0.01, format!("C12/proportion_rare/min_vs_construction/{kn}"), "n={n}, p={p:e} (n p or n q = {lambda:.3}, {side} successes), {:?}: coverage {ch:.6}; the exact Wilson construction covers with probability {rl:.6} (allowed 0.01 below that)", c.conf);
            obs.headroom(&format!("proportion_rare/min/{kn}"), (level - ch).max(0.0) / prop_min_slack(level), || json!({"n": n, "conf": c.conf, "coverage": ch, "p": p}));
            if ch > 0.001 && cl < 0.9999 {
                nontrivial += 1;
            }
            // quantile ranks for the q-quantile with q = p (B = observations below the true quantile ~ Bin(n, q))
            if n <= (1u64 << 52) {
                let ranks = match call(|| quantile::ci_indices(conf, n as usize, p)) {
                    Out::Ok(i) => i,
                    Out::Err(e) => return crate::engine::fail("C12/quantile/rejected", format!("ci_indices({:?}, {n}, {p:e}) = Err({e:?}) inside n q >= 10, n (1-q) >= 10", c.conf)),
                    Out::Panic(pp) => return crate::engine::fail("C12/quantile/panic", format!("ci_indices({:?}, {n}, {p:e}) panicked: {pp}", c.conf)),
                };
                let (lo, hi) = match ranks {
                    Interval::TwoSided(a, b) => (Some(a as u64), Some(b as u64)),
                    Interval::UpperOneSided(a) => (Some(a as u64), None),
                    Interval::LowerOneSided(b) => (None, Some(b as u64)),
                };
                // window index j counts the rare side: B = j (q small) or B = n - j (q close to 1)
                let (qc, _) = cover(&pmf, |j| {
                    let b = kof(j);
                    (lo.map(|l| b >= l + 1).unwrap_or(true) && hi.map(|h| b <= h).unwrap_or(true), false)
                });
                let slack = quant_point_slack(n, p).min(0.6 / (lambda * (1.0 - ptail)).sqrt());
                let dev = (qc - level).abs();
                obs.eval();
                obs.headroom(&format!("quantile_rare/pointwise/{kn}"), dev / slack, || json!({"n": n, "q": p, "conf": c.conf, "coverage": qc}));
                ensure!(dev <= slack, format!("C12/quantile_rare/pointwise/{kn}"), "n={n}, q={p:e} (n q or n (1-q) = {lambda:.3}), {:?}: distribution-free coverage of ranks {ranks:?} is {qc:.5}, nominal {level} (slack {slack:.4})", c.conf);
            }
        }
        obs.nontrivial_enum(nontrivial);
        obs.class(&format!("proportion_rare/{}/{kn}", if mirrored { "common" } else { "rare" }));
    }
    if obs.wants_sample(&format!("rare/{kn}")) {
        obs.sample(&format!("rare/{kn}"), || json!({"n": n, "conf": c.conf, "lambda_points": RARE_POINTS, "window": RARE_KMAX}));
    }
    Ok(())
}

/// Huge populations with a *balanced* outcome (k (n - k) beyond 2^64): coverage at p summed over the window of
/// outcomes within 7 standard deviations of n p (the rest carries less than 1e-11 of the mass).
#[derive(Clone, Debug, Serialize, Deserialize)]
pub struct BalancedCase {
    pub n: u64,
    pub p: crate::fl::X,
    pub conf: Conf,
}
pub fn balanced_case(c: &BalancedCase, obs: &mut Obs) -> PResult {
    let (n, p) = (c.n, c.p.0);
    let level = c.conf.l();
    let kn = c.conf.kind_name();
    let conf = c.conf.get();
    let nf = n as f64;
    let sd = (nf * p * (1.0 - p)).sqrt();
    let k0 = (nf * p - 7.0 * sd).floor().max(0.0) as u64;
    let k1 = ((nf * p + 7.0 * sd).ceil() as u64).min(n);
    let len = (k1 - k0 + 1) as usize;
    // pmf over the window by the recurrence from the mode, normalised over the window
    let mut w = vec![0.0f64; len];
    let mode = (((n + 1) as f64) * p).floor().clamp(k0 as f64, k1 as f64) as u64;
    let r = p / (1.0 - p);
    w[(mode - k0) as usize] = 1.0;
    for k in mode..k1 {
        w[(k + 1 - k0) as usize] = w[(k - k0) as usize] * ((n - k) as f64 / (k + 1) as f64) * r;
    }
    for k in (k0 + 1..=mode).rev() {
        w[(k - 1 - k0) as usize] = w[(k - k0) as usize] * (k as f64 / (n - k + 1) as f64) / r;
    }
    let total: f64 = w.iter().sum();
    let z = crate::meanref::crit_z(&c.conf).c;
    let (mut cov, mut refcov) = (0.0f64, 0.0f64);
    for (i, wk) in w.iter().enumerate() {
        let k = k0 + i as u64;
        let inside = match call(|| proportion::ci(conf, n as usize, k as usize)) {
            Out::Ok(Interval::TwoSided(a, b)) => a <= p && p <= b,
            Out::Ok(other) => return crate::engine::fail("C12/proportion/kind", format!("ci({:?}, {n}, {k}) = {other:?}", c.conf)),
            Out::Err(_) => false,
            Out::Panic(pp) => return crate::engine::fail("C12/proportion/panic", format!("ci({:?}, {n}, {k}) panicked: {pp}", c.conf)),
        };
        if inside {
            cov += wk;
        }
        // the mathematical construction, in f64 with the products formed in floating point
        let (kf, ff) = (k as f64, (n - k) as f64);
        let z2 = z * z;
        let center = (kf + z2 / 2.0) / (nf + z2);
        let span = z / (nf + z2) * (kf * ff / nf + z2 / 4.0).sqrt();
        let (a, b) = match c.conf.kind {
            0 => (center - span.abs(), center + span.abs()),
            1 => (center - span, 1.0),
            _ => (0.0, center + span),
        };
        if a <= p && p <= b {
            refcov += wk;
        }
    }
    obs.evals(len as u64);
    let (cov, refcov) = (cov / total, refcov / total);
    let floor = level - prop_min_slack(level);
    ensure!(cov >= floor, format!("C12/proportion_balanced/min_coverage/{kn}"), "n={n}, p={p}, {:?}: coverage {cov:.6} is below the documented floor {floor:.4}", c.conf);
    ensure!((cov - refcov).abs() <= 0.01, format!("C12/proportion_balanced/vs_construction/{kn}"), "n={n}, p={p}, {:?}: coverage {cov:.6}; the exact Wilson construction covers with probability {refcov:.6}", c.conf);
    obs.class("proportion_balanced");
    obs.nontrivial(&("balanced", n, p.to_bits(), c.conf.kind, level.to_bits()));
    if obs.wants_sample("balanced") {
        obs.sample("balanced", || json!({"n": n, "p": p, "conf": c.conf, "outcomes_summed": len, "coverage": cov, "construction": refcov}));
    }
    Ok(())
}

pub fn run(run: &mut Run) {
    run.technique = "enumeration of a parameter grid with the coverage probability summed exactly over all binomial outcomes (own pmf) — generated-input search against documented slack laws".into();
    run.rule = "n on a grid (quick {25,50,100,200,400,1000,1500,2500}; thorough every n in 21..=600 and 150 values to 5000) x levels {0.8,0.9,0.95,0.99} x 3 kinds; proportion: intervals for all k, coverage at 801 values of p in [10/n,1-10/n]; quantile: ranks from ci_indices at 397 values of q with n q >= 10 and n (1-q) >= 10; rare events: n in {20001 … 10^12} (thorough: 78 values from 6000 to 10^13) with n p resp. n (1-p) on 381 points in [10, 200], outcomes summed over the window that carries all but 1e-25 of the mass; balanced outcomes on populations of 2^34 (thorough: 2^33 … 2^40), coverage at p in {0.5, 0.3} summed over the outcomes within 7 standard deviations; non-trivial = (n, level, kind, p or q) with coverage strictly inside (0.001, 0.9999), i.e. mass on both sides of a bound; enumerated once each".into();
    crate::meanref::selftest_into(run);
    let ns: Vec<u64> = match run.tier {
        crate::engine::Tier::Quick => vec![25, 50, 100, 200, 400, 1000, 1500, 2500],
        crate::engine::Tier::Thorough => {
            let mut v: Vec<u64> = (21..=600).collect();
            for i in 0..150 {
                v.push(600 + ((4400.0 * ((i + 1) as f64 / 150.0).powf(1.5)) as u64));
            }
            v
        }
    };
    let mut jobs: Vec<(u64, Conf, bool)> = vec![];
    for &n in &ns {
        for &l in &LEVELS {
            for k in 0u8..3 {
                jobs.push((n, Conf::new(k, l), false));
                jobs.push((n, Conf::new(k, l), true));
            }
        }
    }
    // longest first for load balance
    jobs.sort_by(|a, b| b.0.cmp(&a.0));
    let jobs_ref = &jobs;
    run.par(jobs.len(), |j, obs| {
        let (n, conf, quant) = jobs_ref[j];
        if quant {
            crate::engine::case_on(obs, "quantile", &Case { n, conf }, quantile_case);
        } else {
            crate::engine::case_on(obs, "proportion", &Case { n, conf }, proportion_case);
        }
    });
    // rare events on huge populations (windowed sums)
    let big: Vec<u64> = match run.tier {
        crate::engine::Tier::Quick => vec![20_001, 110_001, 1_000_000, 12_345_678, 1_000_000_000_000],
        crate::engine::Tier::Thorough => {
            let mut v = vec![];
            let mut x = 6000.0f64;
            while x < 1e13 {
                v.push(x as u64 | 1);
                x *= 1.31;
            }
            v
        }
    };
    let mut rare_jobs: Vec<(u64, Conf)> = vec![];
    for &n in &big {
        for &l in &LEVELS {
            for k in 0u8..3 {
                rare_jobs.push((n, Conf::new(k, l)));
            }
        }
    }
    let rj = &rare_jobs;
    run.par(rare_jobs.len(), |j, obs| {
        let (n, conf) = rj[j];
        crate::engine::case_on(obs, "rare", &Case { n, conf }, rare_case);
    });
    // balanced outcomes on populations beyond 2^33 (k (n - k) exceeds 2^64)
    {
        let ns: Vec<u64> = run.tier.pick(vec![1u64 << 34], vec![(1u64 << 33) + 1, 1u64 << 34, (1u64 << 36) + 12345, 1u64 << 40]);
        let mut jobs = vec![];
        for &n in &ns {
            for p in [0.5, 0.3] {
                for (kind, l) in [(0u8, 0.95), (1, 0.9), (2, 0.8)] {
                    jobs.push(BalancedCase { n, p: crate::fl::X(p), conf: Conf::new(kind, l) });
                }
            }
        }
        let jr = &jobs;
        run.par(jobs.len(), |j, obs| {
            crate::engine::case_on(obs, "balanced", &jr[j], balanced_case);
        });
        run.require_class("proportion_balanced");
    }
    run.exhaustive = false;
    for k in ["two", "upper", "lower"] {
        run.require_class(&format!("proportion_rare/rare/{k}"));
        run.require_class(&format!("proportion_rare/common/{k}"));
    }
    for k in ["two", "upper", "lower"] {
        run.require_class(&format!("proportion/{k}/L0.95"));
        run.require_class(&format!("quantile/{k}/L0.8"));
    }
    run.assumptions.push("slack laws of DESIGN C12 (mean |cov-L| <= 0.0015+0.08/n, floor L-(0.45(1-L)+0.015); quantile |cov-L| <= 0.6/sqrt(n q (1-q)), mean <= 0.55/sqrt(n)+0.002), derived from the mathematical Wilson construction, not from the crate".into());
    run.assumptions.push("second law (sharper, computed from the mathematical construction at run time with the harness' own quantile): min coverage >= construction's min - 0.01 and |mean - construction's mean| <= 5e-4".into());
    run.assumptions.push("outcomes for which the crate returns an error count as misses; a grid point within 1e-9 of a bound is evaluated both ways and the favourable value is compared".into());
    crate::props::history::add(run, "C12", &[crate::props::history::WILSON, crate::props::history::QIDX], 3_000, 200_000);
}

pub fn replay(sub: &str, v: &Value, obs: &mut Obs) -> Option<PResult> {
    Some(match sub {
        "history" => crate::props::history::case(&de(v), obs),
        "proportion" => proportion_case(&de(v), obs),
        "quantile" => quantile_case(&de(v), obs),
        "rare" => rare_case(&de(v), obs),
        "balanced" => balanced_case(&de(v), obs),
        _ => return None,
    })
}
