//! C03 — quantile CI is the order statistics at the Wilson ranks, whatever the data order.

use crate::engine::{Obs, PResult, Run, SplitMix};
use crate::fl::{next_down, next_up, X};
use crate::meanref::crit_z;
use crate::model::{call, ek, Conf, Out, EK};
use crate::props::de;
use proptest::prelude::*;
use serde::{Deserialize, Serialize};
use serde_json::{json, Value};
use stats_ci::quantile;
use stats_ci::Interval;
use std::fmt::Debug;

pub const LEVELS: [f64; 12] = [0.001, 0.1, 0.3, 0.49, 0.5, 0.51, 0.8, 0.9, 0.95, 0.99, 0.999, 0.9999];

#[derive(Clone, Debug, Serialize, Deserialize)]
pub struct RankCase {
    pub n: u64,
    pub q: X,
    pub conf: Conf,
    /// 0 ci_indices, 1 Stats::new(n).ci
    pub entry: u8,
}

fn window(n: u64) -> f64 {
    1e-9 * (n as f64).max(1.0)
}
/// floor(x) with the ambiguity rule: both neighbours when x is within the window of an integer
fn floor_candidates(x: f64, n: u64) -> Vec<u64> {
    let w = window(n);
    let f = x.floor();
    let mut v = vec![f.max(0.0) as u64];
    if x - f <= w && f >= 1.0 {
        v.push(f as u64 - 1);
    }
    if f + 1.0 - x <= w {
        v.push(f as u64 + 1);
    }
    v
}
/// round-half-away(q n) with the ambiguity rule. The product is formed exactly (q is dyadic):
/// an exact half-integer rounds away from zero without ambiguity; only when the exact product
/// lies within a few ulps of a half-integer (so that the f64 product may land on it) are both
/// neighbours accepted.
fn round_candidates(q: f64, n: u64) -> Vec<u64> {
    debug_assert!(q > 0.0 && q < 1.0);
    let (m, e) = crate::exact::decode(q);
    let p = m as u128 * n as u128; // value = p * 2^e, e < 0
    let s = (-e) as u32;
    if s >= 127 {
        return vec![0];
    }
    let int_part = (p >> s) as u64;
    let frac = p & ((1u128 << s) - 1);
    let half = 1u128 << (s - 1);
    if frac == half {
        return vec![int_part + 1];
    }
    // rounding of the exact product, and of the correctly rounded f64 product: two readings of
    // "round(q n)" that can differ only when the exact product is within an ulp of a half-integer
    let exact = if frac > half { int_part + 1 } else { int_part };
    let float = (q * n as f64).round() as u64;
    if exact == float {
        vec![exact]
    } else {
        vec![exact, float]
    }
}

/// reference Wilson bounds for counts (n,k) with signed z
fn wilson(n: u64, k: u64, z: f64, kind: u8) -> (f64, f64) {
    let (nf, kf, ff) = (n as f64, k as f64, (n - k) as f64);
    let z2 = z * z;
    let center = (kf + z2 / 2.0) / (nf + z2);
    let span = z / (nf + z2) * (kf * ff / nf + z2 / 4.0).sqrt();
    match kind {
        0 => (center - span.abs(), center + span.abs()),
        1 => (center - span, 1.0),
        _ => (0.0, center + span),
    }
}

fn rank_entry(c: &RankCase) -> Out<Interval<usize>> {
    let conf = c.conf.get();
    let (n, q) = (c.n as usize, c.q.0);
    call(|| if c.entry == 0 { quantile::ci_indices(conf, n, q) } else { quantile::Stats::new(n).ci(conf, q) })
}

pub fn rank_case_z(c: &RankCase, z: f64, obs: &mut Obs) -> PResult {
    let (n, q) = (c.n, c.q.0);
    let kn = c.conf.kind_name();
    let entry = ["ci_indices", "Stats::ci"][c.entry as usize];
    obs.eval();
    let out = rank_entry(c);
    if let Out::Panic(p) = &out {
        return crate::engine::fail(format!("C03/{entry}/panic"), format!("{entry}({:?}, n={n}, q={q:e}) panicked: {p}", c.conf));
    }
    // applicable rejections
    let mut applicable: Vec<EK> = vec![];
    let mut ok_possible = true;
    if q.is_nan() {
        obs.class("rejected/q-NaN");
        return match out {
            Out::Err(e) => {
                ensure!(matches!(ek(&e), EK::InvalidQuantile | EK::TooFewSamples | EK::TooFewSuccesses | EK::TooFewFailures), format!("C03/{entry}/wrong_error"), "{entry}(n={n}, q=NaN) = Err({e:?})");
                Ok(())
            }
            o => crate::engine::fail(format!("C03/{entry}/accepts_nan_quantile"), format!("{entry}(n={n}, q=NaN) = {}", o.describe())),
        };
    }
    if !(q > 0.0 && q < 1.0) {
        applicable.push(EK::InvalidQuantile);
        ok_possible = false;
    }
    if n < 4 {
        applicable.push(EK::TooFewSamples);
        ok_possible = false;
    }
    let ks = if q > 0.0 && q < 1.0 { round_candidates(q, n) } else { vec![] };
    let mut adm_ks: Vec<u64> = vec![];
    for &k in &ks {
        if k < 2 {
            applicable.push(EK::TooFewSuccesses);
        } else if k > n {
            applicable.push(EK::InvalidSuccesses);
        } else if n - k < 2 {
            applicable.push(EK::TooFewFailures);
        } else {
            adm_ks.push(k);
        }
    }
    if adm_ks.is_empty() {
        ok_possible = false;
    }
    if ks.len() > 1 {
        obs.exclude("ambiguous rank round(q n): rounding the exact product and rounding the f64 product disagree (within an ulp of a half-integer), both accepted");
    }
    let i = match out {
        Out::Err(e) => {
            let got = ek(&e);
            ensure!(applicable.contains(&got), format!("C03/{entry}/wrong_error"), "{entry}({:?}, n={n}, q={q:e}) = Err({e:?}); applicable rejections: {applicable:?} (candidates for round(q n): {ks:?})", c.conf);
            obs.class(&format!("rejected/{got:?}"));
            return Ok(());
        }
        Out::Ok(i) => i,
        Out::Panic(_) => unreachable!(),
    };
    ensure!(ok_possible, format!("C03/{entry}/accepts_outside_domain"), "{entry}({:?}, n={n}, q={q:e}) = Ok({i:?}) but {applicable:?} applies", c.conf);
    // kind
    let (lo, hi) = match (&i, c.conf.kind) {
        (Interval::TwoSided(a, b), 0) => (Some(*a as u64), Some(*b as u64)),
        (Interval::UpperOneSided(a), 1) => (Some(*a as u64), None),
        (Interval::LowerOneSided(b), 2) => (None, Some(*b as u64)),
        _ => return crate::engine::fail(format!("C03/{entry}/kind"), format!("{entry}({:?}, n={n}, q={q:e}) = {i:?}: kind of the result differs from the kind of the confidence", c.conf)),
    };
    // ranks against the reference, for some admissible candidate k
    let mut matched = false;
    let mut why = String::new();
    let mut ambiguous_rank = false;
    for &k in &adm_ks {
        let (plo, phi) = wilson(n, k, z, c.conf.kind);
        let cl = floor_candidates(plo * n as f64, n).into_iter().map(|r| r.min(n - 1)).collect::<Vec<_>>();
        let ch = floor_candidates(phi * n as f64, n).into_iter().map(|r| r.min(n - 1)).collect::<Vec<_>>();
        let lo_ok = lo.map(|l| cl.contains(&l)).unwrap_or(true);
        let hi_ok = hi.map(|h| ch.contains(&h)).unwrap_or(true);
        if lo_ok && hi_ok {
            matched = true;
            ambiguous_rank = (lo.is_some() && cl.len() > 1) || (hi.is_some() && ch.len() > 1);
            // bracket the sample-quantile rank to within one position (two-sided, or one-sided at L >= 1/2)
            if c.conf.kind == 0 || c.conf.l() >= 0.5 {
                if let Some(l) = lo {
                    ensure!(l <= k, format!("C03/{entry}/bracket/{kn}"), "{entry}({:?}, n={n}, q={q:e}) = {i:?}: lower rank {l} above the sample-quantile rank {k}", c.conf);
                }
                if let Some(h) = hi {
                    ensure!(h + 1 >= k, format!("C03/{entry}/bracket/{kn}"), "{entry}({:?}, n={n}, q={q:e}) = {i:?}: upper rank {h} more than one position below the sample-quantile rank {k}", c.conf);
                }
            }
            break;
        } else {
            why = format!("k={k}: Wilson bounds ({plo:.12}, {phi:.12}) give lower rank in {cl:?}, upper rank in {ch:?}");
        }
    }
    let below = if c.conf.kind != 0 && c.conf.l() < 0.5 { "/level_below_half" } else { "" };
    ensure!(matched, format!("C03/{entry}/rank/{kn}{below}"), "{entry}({:?}, n={n}, q={q:e}) = {i:?}; reference: {why}", c.conf);
    if ambiguous_rank {
        obs.exclude("ambiguous rank floor(p n): p n within 1e-9 max(1,n) of an integer, both neighbours accepted");
    }
    // in range, ordered
    if let Some(l) = lo {
        ensure!(l < n, format!("C03/{entry}/out_of_range"), "{entry}(n={n}, q={q:e}) = {i:?}: rank out of range");
    }
    if let Some(h) = hi {
        ensure!(h < n, format!("C03/{entry}/out_of_range"), "{entry}(n={n}, q={q:e}) = {i:?}: rank out of range");
    }
    if let (Some(l), Some(h)) = (lo, hi) {
        ensure!(l <= h, format!("C03/{entry}/inverted"), "{entry}(n={n}, q={q:e}) = {i:?}");
    }
    obs.class(&format!("ok/{kn}/{}", c.conf.level_bucket()));
    if obs.wants_sample(&format!("ok/{kn}")) {
        obs.sample(&format!("ok/{kn}"), || json!({"n": n, "q": q, "conf": c.conf, "entry": entry, "ranks": format!("{i:?}"), "sample_quantile_rank": adm_ks}));
    }
    Ok(())
}
pub fn rank_case(c: &RankCase, obs: &mut Obs) -> PResult {
    obs.nontrivial(&(c.n, c.q.0.to_bits(), c.conf.kind, c.conf.l().to_bits(), c.entry));
    rank_case_z(c, crit_z(&c.conf).c, obs)
}

// Stats::index ------------------------------------------------------------------------------------

#[derive(Clone, Debug, Serialize, Deserialize)]
pub struct IndexCase {
    pub n: u64,
    pub q: X,
}
pub fn index_case(c: &IndexCase, obs: &mut Obs) -> PResult {
    let (n, q) = (c.n, c.q.0);
    obs.eval();
    let out = call(|| quantile::Stats::new(n as usize).index(q));
    match out {
        Out::Panic(p) => crate::engine::fail("C03/index/panic", format!("Stats::new({n}).index({q:e}) panicked: {p}")),
        Out::Err(e) => {
            let got = ek(&e);
            let mut applicable = vec![];
            if n == 0 {
                applicable.push(EK::TooFewSamples);
            }
            if !(q >= 0.0 && q <= 1.0) {
                applicable.push(EK::InvalidQuantile);
            }
            ensure!(applicable.contains(&got), "C03/index/wrong_error", "Stats::new({n}).index({q:e}) = Err({e:?}); applicable: {applicable:?}");
            obs.class(&format!("index/rejected/{got:?}"));
            Ok(())
        }
        Out::Ok(i) => {
            ensure!(n > 0 && (0.0..=1.0).contains(&q), "C03/index/accepts_outside_domain", "Stats::new({n}).index({q:e}) = Ok({i})");
            let cands: Vec<u64> = floor_candidates(q * n as f64, n).into_iter().map(|r| r.min(n - 1)).collect();
            ensure!(cands.contains(&(i as u64)), "C03/index/value", "Stats::new({n}).index({q:e}) = {i}, expected min(floor(q n), n-1) in {cands:?}");
            obs.class("index/ok");
            Ok(())
        }
    }
}

/// populations beyond 2^53 (where n - 1 is not a double): the ranks stay in range whatever the proportion
#[derive(Clone, Debug, Serialize, Deserialize)]
pub struct HugeCase {
    pub n: u64,
    pub q: X,
    pub conf: Conf,
}
pub fn huge_case(c: &HugeCase, obs: &mut Obs) -> PResult {
    let (n, q) = (c.n, c.q.0);
    obs.evals(2);
    match call(|| quantile::Stats::new(n as usize).index(q)) {
        Out::Ok(i) => {
            ensure!((i as u64) < n, "C03/index/out_of_range", "Stats::new({n}).index({q:e}) = {i}: not a 0-based rank of a population of {n}");
            // (the exact last rank is not required at p = 1: n itself is not a double here, and the reading of
            // floor(p n) is only defined up to the spacing of doubles at n, as for every other rank)
            // within the f64 reading of floor(q n) by the spacing of doubles at n
            let want = (q * n as f64).floor();
            ensure!((i as f64 - want).abs() <= n as f64 * 4.0 * f64::EPSILON + 2.0, "C03/index/value", "Stats::new({n}).index({q:e}) = {i}, floor(q n) = {want:e}");
        }
        Out::Err(e) => return crate::engine::fail("C03/index/wrong_error", format!("Stats::new({n}).index({q:e}) = Err({e:?}) for a proportion in [0,1]")),
        Out::Panic(p) => return crate::engine::fail("C03/index/panic", format!("Stats::new({n}).index({q:e}) panicked: {p}")),
    }
    for entry in 0..2 {
        let out = call(|| if entry == 0 { quantile::ci_indices(c.conf.get(), n as usize, q) } else { quantile::Stats::new(n as usize).ci(c.conf.get(), q) });
        match out {
            Out::Ok(i) => {
                let (lo, hi) = (i.left().copied(), i.right().copied());
                ensure!(lo.map(|l| (l as u64) < n).unwrap_or(true) && hi.map(|h| (h as u64) < n).unwrap_or(true) && lo.zip(hi).map(|(l, h)| l <= h).unwrap_or(true), "C03/ci_indices/out_of_range", "ranks {i:?} for a population of {n} (q = {q:e}, {:?})", c.conf);
                obs.class("huge/ok");
            }
            Out::Err(_) => obs.class("huge/rejected"),
            Out::Panic(p) => return crate::engine::fail("C03/ci_indices/panic", format!("n={n}, q={q:e}, {:?}: {p}", c.conf)),
        }
    }
    // the ranks are those of the Wilson bounds of round(q n) / n: here through the crate's own proportion interval and
    // index map applied to the exactly rounded count (the f64 reading of q n is accepted as well) — at these sizes the
    // closed-form reference cannot resolve single ranks, the composition of the two public functions can
    if q > 0.0 && q < 1.0 {
        use num_bigint::BigInt;
        use num_traits::{Signed, ToPrimitive};
        let pq = crate::exact::Dy::from_f64(q);
        let prod = pq.num.clone() * BigInt::from(n);
        let k_exact = if pq.exp >= 0 { (prod << pq.exp as usize).to_u64() } else { ((prod.abs() + (BigInt::from(1u8) << ((-pq.exp) as usize - 1))) >> (-pq.exp) as usize).to_u64() };
        let k_float = (q * n as f64).round() as u64;
        let mut want = vec![];
        for k in [Some(k_float), k_exact].into_iter().flatten() {
            if let Out::Ok(Interval::TwoSided(pl, ph)) = call(|| stats_ci::proportion::ci_wilson(c.conf.get(), n as usize, k as usize)) {
                let st = quantile::Stats::new(n as usize);
                if let (Ok(lo), Ok(hi)) = (st.index(pl), st.index(ph)) {
                    want.push((lo, hi));
                }
            }
        }
        if let (false, Out::Ok(i)) = (want.is_empty(), call(|| quantile::ci_indices(c.conf.get(), n as usize, q))) {
            let got = (i.left().copied(), i.right().copied());
            let ok = want.iter().any(|(lo, hi)| got.0.map(|g| g == *lo).unwrap_or(true) && got.1.map(|g| g == *hi).unwrap_or(true));
            ensure!(ok, "C03/ci_indices/huge_population_ranks", "ci_indices({:?}, {n}, {q:e}) = {i:?}, but the Wilson bounds of round(q n) mapped through Stats::index give {want:?}", c.conf);
            obs.class("huge/ranks-checked");
        }
    }
    obs.nontrivial(&("huge", n, q.to_bits(), c.conf.kind, c.conf.l().to_bits()));
    Ok(())
}

// elements and order independence -------------------------------------------------------------------

#[derive(Clone, Debug, Serialize, Deserialize)]
pub struct ElemCase {
    /// i32 u8 f64 char str
    pub ty: String,
    /// small integer codes in the order the data are supplied; element = monotone map of the code
    pub codes: Vec<u8>,
    pub conf: Conf,
    pub q: X,
}
const STRS: [&str; 16] = ["", "A", "B", "a", "aa", "ab", "b", "ba", "c", "d", "e", "f", "g", "zz", "zzz", "~"];

fn same<T: PartialEq + Debug>(a: &Out<Interval<T>>, b: &Out<Interval<T>>) -> bool
where
    T: PartialOrd,
{
    match (a, b) {
        (Out::Ok(x), Out::Ok(y)) => x == y,
        (Out::Err(x), Out::Err(y)) => ek(x) == ek(y),
        _ => false,
    }
}

macro_rules! max_size_exact {
    ($conf:expr, $data:expr, $q:expr, $n:expr, $T:ty, [$($cap:literal),*]) => {
        match $n {
            $( $cap => Some(call(|| quantile::ci_max_size::<$T, Vec<$T>, $cap>($conf, $data, $q))), )*
            _ => None,
        }
    };
}

fn elem_generic<T: PartialOrd + Copy + Debug + PartialEq>(c: &ElemCase, map: impl Fn(u8) -> T, obs: &mut Obs) -> PResult {
    let n = c.codes.len();
    let conf = c.conf.get();
    let q = c.q.0;
    let data: Vec<T> = c.codes.iter().map(|&v| map(v)).collect();
    let mut sorted_codes = c.codes.clone();
    sorted_codes.sort();
    let sorted: Vec<T> = sorted_codes.iter().map(|&v| map(v)).collect();
    obs.evals(6);
    // expected from the ranks (Part A checks the ranks themselves)
    let ranks = call(|| quantile::ci_indices(conf, n, q));
    let expected: Out<Interval<T>> = match ranks {
        Out::Ok(Interval::TwoSided(l, h)) => Out::Ok(Interval::TwoSided(sorted[l], sorted[h])),
        Out::Ok(Interval::UpperOneSided(l)) => Out::Ok(Interval::UpperOneSided(sorted[l])),
        Out::Ok(Interval::LowerOneSided(h)) => Out::Ok(Interval::LowerOneSided(sorted[h])),
        Out::Err(e) => Out::Err(e),
        Out::Panic(p) => return crate::engine::fail("C03/ci_indices/panic", format!("ci_indices(n={n}, q={q:e}) panicked: {p}")),
    };
    let got_ci = call(|| quantile::ci(conf, &data, q));
    if let Out::Panic(p) = &got_ci {
        return crate::engine::fail("C03/ci/panic", format!("quantile::ci on {n} comparable elements, q={q:e}, {:?} panicked: {p}", c.conf));
    }
    ensure!(same(&got_ci, &expected), "C03/ci/not_order_statistics", "ci({:?}, {data:?}, q={q:e}) = {}, but the order statistics at the ranks are {}", c.conf, got_ci.describe(), expected.describe());
    let got_sorted = call(|| quantile::ci_sorted_unchecked(conf, &sorted, q));
    ensure!(same(&got_sorted, &expected), "C03/ci_sorted_unchecked/differs", "ci_sorted_unchecked({:?}, {sorted:?}, q={q:e}) = {}, expected {}", c.conf, got_sorted.describe(), expected.describe());
    // on the supplied order too when it happens to be sorted the two agree by the above; on sorted input `ci` must agree as well
    let got_ci_sorted = call(|| quantile::ci(conf, &sorted, q));
    ensure!(same(&got_ci_sorted, &got_ci), "C03/ci/order_dependent", "ci on {data:?} = {} but on the sorted data = {}", got_ci.describe(), got_ci_sorted.describe());
    // a container whose borrowed iterator has a loose size_hint (lower bound 0, upper bound too large)
    let sp = crate::gen::sparse(&data, c.codes.len() as u64 * 131 + c.codes.first().copied().unwrap_or(0) as u64, 1 + n / 3);
    let got_sparse = call(|| quantile::ci(conf, &sp, q));
    ensure!(same(&got_sparse, &expected), "C03/ci/sparse_container", "ci on a container that yields {data:?} through a filtering iterator = {}, expected {}", got_sparse.describe(), expected.describe());
    let got_sparse_cap = call(|| quantile::ci_max_size::<T, crate::gen::Sparse<T>, 1024>(conf, &sp, q));
    ensure!(same(&got_sparse_cap, &expected), "C03/ci_max_size/sparse_container", "ci_max_size on a container that yields {data:?} through a filtering iterator = {}, expected {}", got_sparse_cap.describe(), expected.describe());
    obs.evals(2);
    // fixed-capacity variants
    for (name, r) in [
        ("CAP=1024", Some(call(|| quantile::ci_max_size::<T, Vec<T>, 1024>(conf, &data, q)))),
        ("CAP=64", if n <= 64 { Some(call(|| quantile::ci_max_size::<T, Vec<T>, 64>(conf, &data, q))) } else { None }),
        ("CAP=n", max_size_exact!(conf, &data, q, n, T, [4, 5, 6, 7, 8, 9, 10, 11, 12, 13, 14, 15, 16, 17, 20, 25, 31, 32, 33, 40, 50, 63])),
        ("CAP=n+1", max_size_exact!(conf, &data, q, n + 1, T, [5, 6, 7, 8, 9, 10, 11, 12, 13, 14, 15, 16, 17, 18, 21, 26, 32, 33, 34, 41, 51])),
    ] {
        if let Some(r) = r {
            obs.eval();
            obs.class(&format!("ci_max_size/{name}"));
            ensure!(same(&r, &expected), format!("C03/ci_max_size/{name}"), "ci_max_size::<{name}>({:?}, {data:?}, q={q:e}) = {}, expected {}", c.conf, r.describe(), expected.describe());
        }
    }
    // bounds are members of the sample
    if let Out::Ok(i) = &got_ci {
        for b in [i.left(), i.right()].into_iter().flatten() {
            ensure!(data.iter().any(|x| x == b), "C03/ci/bound_not_in_sample", "ci({data:?}) = {i:?}: bound {b:?} is not an element of the sample");
        }
        let nonconst = sorted_codes.first() != sorted_codes.last();
        let permuted = c.codes != sorted_codes;
        if nonconst && permuted {
            obs.nontrivial(&(&c.ty, &c.codes, c.conf.kind, c.conf.l().to_bits(), q.to_bits()));
            obs.class(&format!("elements/{}/permuted", c.ty));
        } else {
            obs.class(&format!("elements/{}/sorted-or-constant", c.ty));
        }
        if obs.wants_sample(&format!("elements/{}", c.ty)) {
            obs.sample(&format!("elements/{}", c.ty), || json!({"type": c.ty, "data": format!("{data:?}"), "conf": c.conf, "q": q, "result": format!("{i:?}")}));
        }
    } else {
        obs.class("elements/rejected");
    }
    Ok(())
}
pub fn elem_case(c: &ElemCase, obs: &mut Obs) -> PResult {
    match c.ty.as_str() {
        "i32" => elem_generic(c, |v| v as i32 * 3 - 20, obs),
        "u8" => elem_generic(c, |v| v.saturating_mul(9), obs),
        "f64" => elem_generic(c, |v| if v == 4 { -0.0 } else { (v as f64 - 4.0) * 0.375 }, obs),
        "char" => elem_generic(c, |v| (b'A' + v * 2) as char, obs),
        "str" => elem_generic(c, |v| STRS[v as usize % 16], obs),
        t => crate::engine::fail("INFRA/harness_panic", format!("unknown type {t}")),
    }
}

fn permutations(n: usize) -> Vec<Vec<usize>> {
    // Heap's algorithm
    let mut out = vec![];
    let mut a: Vec<usize> = (0..n).collect();
    let mut c = vec![0usize; n];
    out.push(a.clone());
    let mut i = 0;
    while i < n {
        if c[i] < i {
            if i % 2 == 0 {
                a.swap(0, i);
            } else {
                a.swap(c[i], i);
            }
            out.push(a.clone());
            c[i] += 1;
            i = 0;
        } else {
            c[i] = 0;
            i += 1;
        }
    }
    out
}

const TYPES: [&str; 5] = ["i32", "u8", "f64", "char", "str"];

pub fn q_grid(n: u64) -> Vec<f64> {
    let mut v: Vec<f64> = (0..=40).map(|i| i as f64 / 40.0).collect();
    if n > 0 {
        for j in 0..60u64 {
            let a = j as f64 / (2.0 * n as f64);
            if a <= 1.0 {
                v.push(a);
                v.push(1.0 - a);
            }
        }
    }
    let base = v.clone();
    for x in base {
        v.push(next_up(x));
        v.push(next_down(x));
    }
    v.extend([0.0, 1.0, -0.1, 1.5, f64::NAN, f64::INFINITY, f64::NEG_INFINITY, -0.0, 5e-324, 1.0 - f64::EPSILON / 2.0]);
    v
}

pub fn run(run: &mut Run) {
    run.technique = "bounded exhaustive enumeration (all n up to a bound x dense q grid x 12 levels x 3 kinds for ranks; all permutations of small samples) + proptest random search; oracle = independent Wilson ranks, sorted-order model, cross-entry-point equality".into();
    run.rule = "ranks: every n in 0..=N (quick 1000, thorough 8000) x q grid (i/40, j/(2n) and 1-j/(2n) for j<60, their ±1-ulp neighbours, invalid values) x 12 levels x 3 kinds through ci_indices and Stats::ci; Stats::index on the same grid; elements: all permutations of multisets with ties for n <= 7 and random permutations beyond, for i32/u8/f64/char/&str through ci, ci_sorted_unchecked and ci_max_size with four CAP choices; non-trivial = Ok result with n >= 4 (rank cases), non-identity permutation of a non-constant multiset (element cases)".into();
    crate::meanref::selftest_into(run);
    let nmax: u64 = run.tier.pick(1000, 8000);
    let confs: Vec<(Conf, f64)> = LEVELS.iter().flat_map(|&l| (0u8..3).map(move |k| Conf::new(k, l))).map(|c| (c, crit_z(&c).c)).collect();
    let confs_ref = &confs;
    let thorough = run.tier == crate::engine::Tier::Thorough;
    run.par((nmax + 1) as usize, |ni, obs| {
        let n = ni as u64;
        // thin the grid for large n in the thorough tier (every n is still visited)
        let grid = q_grid(n);
        for (qi, &q) in grid.iter().enumerate() {
            if thorough && n > 1000 && (qi + ni) % 4 != 0 {
                continue;
            }
            crate::engine::case_on(obs, "index", &IndexCase { n, q: X(q) }, index_case);
            for (ci, (conf, z)) in confs_ref.iter().enumerate() {
                let entry = ((ci + qi + ni) % 2) as u8;
                let c = RankCase { n, q: X(q), conf: *conf, entry };
                let mut f = |c: &RankCase, obs: &mut Obs| rank_case_z(c, *z, obs);
                crate::engine::case_on(obs, "rank", &c, &mut f);
                if n >= 4 && q > 0.0 && q < 1.0 {
                    obs.nontrivial_enum(1);
                }
            }
        }
    });
    run.exhaustive = true;
    run.exhaustive_parts.push(format!("ranks for every n in 0..={nmax} on the q grid x 36 confidences; all permutations of the listed multisets for n <= 7"));
    // random ranks beyond the grid
    let s = (prop_oneof![4u64..20_000, 4u64..(1u64 << 40)], 0u64..=(1u64 << 53), crate::gen::conf(), 0u8..2).prop_map(|(n, m, conf, entry)| RankCase { n, q: X(m as f64 / (1u64 << 53) as f64), conf, entry });
    run.prop("rank_random", run.tier.pick(100_000, 3_000_000), s, rank_case);
    // all permutations of small multisets
    let multisets: Vec<Vec<u8>> = vec![
        vec![1, 2, 3, 4],
        vec![2, 2, 5, 9],
        vec![0, 4, 4, 4, 7],
        vec![1, 3, 3, 6, 8],
        vec![0, 1, 2, 3, 4, 5],
        vec![5, 5, 5, 6, 6, 9],
        vec![0, 2, 4, 4, 6, 8, 10],
        vec![1, 1, 2, 3, 5, 8, 13],
        vec![3, 3, 3, 3, 3, 3, 4],
    ];
    let small_confs: Vec<(Conf, f64)> = vec![(Conf::new(0, 0.5), 0.5), (Conf::new(1, 0.8), 0.4), (Conf::new(2, 0.3), 0.6), (Conf::new(0, 0.9), 0.5), (Conf::new(0, 0.9), 1.5), (Conf::new(1, 0.9), 0.0)];
    let ms_ref = &multisets;
    let sc_ref = &small_confs;
    let take_all = thorough;
    run.par(multisets.len(), |mi, obs| {
        let ms = &ms_ref[mi];
        for (pi, p) in permutations(ms.len()).into_iter().enumerate() {
            let codes: Vec<u8> = p.iter().map(|&i| ms[i]).collect();
            for (ci, (conf, q)) in sc_ref.iter().enumerate() {
                if !take_all && ms.len() == 7 && (pi + ci) % 4 != 0 {
                    continue;
                }
                let ty = TYPES[(pi + ci + mi) % 5];
                crate::engine::case_on(obs, "elements", &ElemCase { ty: ty.into(), codes: codes.clone(), conf: *conf, q: X(*q) }, elem_case);
            }
        }
    });
    // tiny samples (0..=8 elements) x admissible and inadmissible quantiles: every data front-end must report what the
    // index-only entry point reports, also when several rejections apply at once
    {
        let mut cases = vec![];
        for n in 0usize..=8 {
            for (qi, q) in [0.5, 0.25, 0.0, -0.0, 1.0, -0.1, 1.5, f64::NAN, f64::INFINITY, f64::NEG_INFINITY, 5e-324, 1.0 - f64::EPSILON / 2.0, 0.99, 0.01].into_iter().enumerate() {
                for kind in 0u8..3 {
                    let codes: Vec<u8> = (0..n).map(|i| ((i * 5 + qi) % 7) as u8).collect();
                    cases.push(ElemCase { ty: TYPES[(n + qi + kind as usize) % 5].into(), codes, conf: Conf::new(kind, [0.9, 0.5, 0.99][(n + qi) % 3]), q: X(q) });
                }
            }
        }
        // vanishing levels: the two Wilson ranks coincide (a degenerate interval of one order statistic) or nearly so
        for n in 4usize..=40 {
            for (qi, q) in [0.5, 0.25, 0.75, 0.4].into_iter().enumerate() {
                for (li, l) in [1e-300, 1e-17, 1e-15, 1e-9, 1e-3].into_iter().enumerate() {
                    for kind in 0u8..3 {
                        let codes: Vec<u8> = (0..n).map(|i| ((i * 11 + qi) % 13) as u8).collect();
                        cases.push(ElemCase { ty: TYPES[(n + qi + li) % 5].into(), codes, conf: Conf::new(kind, l), q: X(q) });
                    }
                }
            }
        }
        for c in &cases {
            run.case("elements_tiny", c, elem_case);
        }
        // nearly ordered data: every rotation of a sorted sample, a sorted sample with a few smaller values appended,
        // and one element moved — for every size 4..=70 (an "already in order?" scan must not be fooled at any position)
        let mut nearly = vec![];
        for n in 4usize..=70 {
            let sorted: Vec<u8> = (0..n as u8).collect();
            let conf = Conf::new((n % 3) as u8, [0.9, 0.5, 0.95][n % 3]);
            let ty = ["i32", "f64"][n % 2];
            let q = [0.5, 0.3, 0.8][n % 3];
            for r in 1..n {
                let mut d = sorted.clone();
                d.rotate_left(r);
                nearly.push(ElemCase { ty: ty.into(), codes: d, conf, q: X(q) });
            }
            for k in 1..=3usize.min(n - 2) {
                // the k smallest values at the end
                let mut d: Vec<u8> = sorted[k..].to_vec();
                d.extend_from_slice(&sorted[..k]);
                nearly.push(ElemCase { ty: ty.into(), codes: d, conf, q: X(q) });
            }
            for from in [0, n / 2, n - 1] {
                for to in [0, 1, n / 3, n - 2, n - 1] {
                    if from != to {
                        let mut d = sorted.clone();
                        let v = d.remove(from);
                        d.insert(to.min(d.len()), v);
                        nearly.push(ElemCase { ty: ty.into(), codes: d, conf, q: X(q) });
                    }
                }
            }
        }
        let nr = &nearly;
        run.par(nearly.len(), |i, obs| {
            crate::engine::case_on(obs, "elements_nearly_sorted", &nr[i], elem_case);
        });
        run.exhaustive_parts.push("sample sizes 0..=8 x 14 admissible / inadmissible quantiles x 3 kinds through every data front-end against ci_indices".into());
    }
    // populations beyond 2^53
    {
        let mut cases = vec![];
        for n in [(1u64 << 53) + 2, (1u64 << 52) + 3, (1u64 << 53) - 2, (1u64 << 53) + 1, (1u64 << 53) + 4, 1u64 << 54, (1u64 << 54) + 2, 1u64 << 60, (1u64 << 63) + 12345, u64::MAX, u64::MAX - 1, (1u64 << 53) - 1, 1u64 << 53] {
            for q in [1.0, 1.0 - f64::EPSILON / 2.0, 1.0 - f64::EPSILON, 0.999999, 0.5, 0.25, 1e-3, 0.0, 5e-324] {
                for (kind, l) in [(0u8, 0.95), (2, 0.95), (1, 0.9), (0, 0.5)] {
                    cases.push(HugeCase { n, q: X(q), conf: Conf::new(kind, l) });
                }
            }
        }
        for c in &cases {
            run.case("huge_population", c, huge_case);
        }
        run.require_class("huge/ok");
        run.require_class("huge/ranks-checked");
    }
    // random multisets with ties, random permutations
    let s = (prop::collection::vec(0u8..14, 4..=63), prop::collection::vec(any::<u16>(), 63), crate::gen::conf(), 1u32..1000, 0usize..5)
        .prop_map(|(codes, perm, conf, qm, ty)| ElemCase { ty: TYPES[ty].into(), codes: crate::gen::permute(&codes, &perm), conf, q: X(qm as f64 / 1000.0) });
    run.prop("elements_random", run.tier.pick(40_000, 1_500_000), s, elem_case);
    // larger samples: 200 random permutations of one multiset per size
    let seed = run.seed_for("elements_large", 0);
    let sizes: Vec<usize> = run.tier.pick(vec![100, 1000, 1025, 2000, 10_001, 12_000, 30_000], vec![100, 500, 1024, 1025, 1500, 3000, 4096, 5000, 20000, 100000]);
    let sizes_ref = &sizes;
    run.par(sizes.len(), |si, obs| {
        let n = sizes_ref[si];
        let mut rng = SplitMix(crate::engine::mix(seed, "perm", si as u64));
        let base: Vec<i64> = (0..n).map(|i| ((i * 7919) % (n / 2 + 1)) as i64 - 50).collect();
        let mut sorted = base.clone();
        sorted.sort();
        let conf = Conf::new((si % 3) as u8, 0.9);
        let q = 0.37;
        let want = call(|| quantile::ci_sorted_unchecked(conf.get(), &sorted, q));
        for rep in 0..200 {
            let mut d = base.clone();
            for i in (1..n).rev() {
                let j = rng.below(i as u64 + 1) as usize;
                d.swap(i, j);
            }
            obs.eval();
            let got = call(|| quantile::ci(conf.get(), &d, q));
            if !same(&got, &want) {
                let f = crate::engine::Fail { sig: "C03/ci/order_dependent".into(), msg: format!("n={n}: shuffle #{rep} gives {} but the sorted data give {}", got.describe(), want.describe()) };
                obs.report("elements_large", || json!({"n": n, "rep": rep}), &f);
            } else {
                obs.nontrivial(&(n, rep, "large-perm"));
            }
            if n > 1024 && n <= 4096 {
                // capacities above DATA_CAP are legitimate choices of the const parameter
                let got = call(|| quantile::ci_max_size::<i64, Vec<i64>, 4096>(conf.get(), &d, q));
                obs.eval();
                if !same(&got, &want) {
                    let f = crate::engine::Fail { sig: "C03/ci_max_size/CAP=4096".into(), msg: format!("n={n}: shuffle #{rep} gives {} but the sorted data give {}", got.describe(), want.describe()) };
                    obs.report("elements_large", || json!({"n": n, "rep": rep}), &f);
                }
                obs.class("ci_max_size/CAP=4096");
            }
            if n <= 1024 {
                let got = call(|| quantile::ci_max_size::<i64, Vec<i64>, 1024>(conf.get(), &d, q));
                if !same(&got, &want) {
                    let f = crate::engine::Fail { sig: "C03/ci_max_size/CAP=1024".into(), msg: format!("n={n}: shuffle #{rep} gives {} but the sorted data give {}", got.describe(), want.describe()) };
                    obs.report("elements_large", || json!({"n": n, "rep": rep}), &f);
                }
            }
        }
        obs.class("elements/large-permutations");
    });
    for c in ["ok/two/L<.9", "ok/upper/L<.5", "ok/lower/L>=.99", "rejected/InvalidQuantile", "rejected/TooFewSamples", "rejected/TooFewSuccesses", "rejected/TooFewFailures", "index/ok", "index/rejected/InvalidQuantile", "index/rejected/TooFewSamples", "ci_max_size/CAP=n", "ci_max_size/CAP=n+1", "ci_max_size/CAP=64", "ci_max_size/CAP=1024", "ci_max_size/CAP=4096", "elements/str/permuted", "elements/f64/permuted", "elements/char/permuted"] {
        run.require_class(c);
    }
    run.assumptions.push("a rank floor(p n) is ambiguous when p n lies within 1e-9 max(1,n) of an integer (the reference p differs from the crate's by up to 1e-13); round(q n) is ambiguous only when rounding the exact product and rounding the correctly rounded f64 product disagree; either neighbour is accepted and the case is counted".into());
    run.assumptions.push("the bracket relation (lower <= round(q n) <= upper + 1) is required for two-sided confidence and for one-sided confidence at level >= 1/2".into());
    crate::props::history::add(run, "C03", &[crate::props::history::QUANT, crate::props::history::QIDX, crate::props::history::WILSON], 3_000, 200_000);
}

pub fn replay(sub: &str, v: &Value, obs: &mut Obs) -> Option<PResult> {
    Some(match sub {
        "history" => crate::props::history::case(&de(v), obs),
        "rank" | "rank_random" => rank_case(&de(v), obs),
        "huge_population" => huge_case(&de(v), obs),
        "index" => index_case(&de(v), obs),
        "elements" | "elements_random" | "elements_tiny" | "elements_nearly_sorted" => elem_case(&de(v), obs),
        "elements_large" => Ok(()),
        _ => return None,
    })
}
