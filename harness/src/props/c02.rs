//! C02 — proportion CI is the Wilson score interval (and Wald variant) of the counts.

use crate::engine::{Obs, PResult, Run, Tier};
use crate::meanref::crit_z;
use crate::model::{call, ek, Conf, Out, EK};
use crate::props::de;
use proptest::prelude::*;
use serde::{Deserialize, Serialize};
use serde_json::{json, Value};
use stats_ci::error::CIError;
use stats_ci::proportion;
use stats_ci::Interval;

pub const FRONTS: [&str; 11] = [
    "ci",
    "ci_wilson",
    "ci_wilson_ratio",
    "ci_true",
    "ci_if",
    "Stats::from_iter+ci",
    "Stats::extend+ci",
    "Stats::extend_if+ci",
    "Stats::add_success/add_failure+ci",
    "Stats::new+ci",
    "ci_z_normal",
];
pub const WALD: u8 = 10;

#[derive(Clone, Debug, Serialize, Deserialize)]
pub struct Case {
    pub n: u64,
    pub k: u64,
    pub conf: Conf,
    /// index into FRONTS
    pub front: u8,
    /// placement of the successes in generated data (0 first, 1 last, 2 spread, 3 alternating blocks)
    pub pattern: u8,
}

/// position i (of n) is a success under the placement pattern, exactly k successes overall
pub fn is_success(pattern: u8, i: u64, n: u64, k: u64) -> bool {
    match pattern % 4 {
        0 => i < k,
        1 => i >= n - k,
        2 => ((i + 1) as u128 * k as u128) / n as u128 != (i as u128 * k as u128) / n as u128,
        _ => {
            // interleave from both ends
            let half = k / 2;
            i < half || i >= n - (k - half)
        }
    }
}

/// reference Wilson bounds (center -/+ span with signed z) and the tolerance
pub struct WilsonRef {
    pub z: f64,
    pub center: f64,
    pub span: f64,
    pub tol: f64,
}
pub fn wilson_ref(n: u64, k: u64, conf: &Conf, z: f64, dz: f64) -> WilsonRef {
    let nf = n as f64;
    let kf = k as f64;
    let ff = (n - k) as f64;
    let z2 = z * z;
    let center = (kf + z2 / 2.0) / (nf + z2);
    let span = z / (nf + z2) * (kf * ff / nf + z2 / 4.0).sqrt();
    let _ = conf;
    WilsonRef { z, center, span, tol: 1e-13 + dz }
}

/// what the front-end returns for the counts (n, k)
pub fn run_front(c: &Case) -> Out<Interval<f64>> {
    let conf = c.conf.get();
    let n = c.n as usize;
    let k = c.k as usize;
    call(|| match c.front {
        0 => proportion::ci(conf, n, k),
        1 => proportion::ci_wilson(conf, n, k),
        2 => proportion::ci_wilson_ratio(conf, n, k as f64 / n as f64),
        3 => {
            let data: Vec<bool> = (0..c.n).map(|i| is_success(c.pattern, i, c.n, c.k)).collect();
            if c.pattern % 2 == 0 {
                proportion::ci_true(conf, &data)
            } else {
                proportion::ci_true(conf, &crate::gen::sparse(&data, c.n * 3 + c.k, 1 + data.len() / 2))
            }
        }
        4 => {
            // data are integers, the predicate is "value below threshold"
            let data: Vec<i64> = (0..c.n).map(|i| if is_success(c.pattern, i, c.n, c.k) { -1 - (i as i64 % 7) } else { i as i64 % 5 }).collect();
            if c.pattern % 2 == 0 {
                proportion::ci_if(conf, &data, |&x| x < 0)
            } else {
                // a predicate with a memory (the verdict depends on how often it has been asked): each element must be
                // asked about exactly once, in order
                let calls = std::cell::Cell::new(0u64);
                proportion::ci_if(conf, &data, |_| {
                    let i = calls.get();
                    calls.set(i + 1);
                    i < c.n && is_success(c.pattern, i, c.n, c.k)
                })
            }
        }
        5 => {
            if c.pattern % 2 == 0 {
                let s: proportion::Stats = (0..c.n).map(|i| is_success(c.pattern, i, c.n, c.k)).collect();
                s.ci(conf)
            } else {
                // FromIterator over a filtering iterator (loose size_hint): every third raw item is dropped
                let raw: Vec<Option<bool>> = (0..c.n).flat_map(|i| [Some(is_success(c.pattern, i, c.n, c.k)), None, None].into_iter().take(1 + (i % 3 == 0) as usize * 2)).collect();
                let s: proportion::Stats = raw.into_iter().flatten().collect();
                s.ci(conf)
            }
        }
        6 => {
            let mut s = proportion::Stats::default();
            let data: Vec<bool> = (0..c.n).map(|i| is_success(c.pattern, i, c.n, c.k)).collect();
            let cut = (c.n / 3) as usize;
            if c.pattern % 2 == 0 {
                s.extend(&data[..cut].to_vec());
                s.extend(&data[cut..].to_vec());
            } else {
                // containers whose borrowed iterator is bounded but not exact-sized (size_hint (0, Some(len + holes)))
                s.extend(&crate::gen::sparse(&data[..cut], c.n * 7 + c.k, 1 + cut / 2));
                s.extend(&crate::gen::sparse(&data[cut..], c.n * 13 + c.k, 1 + data.len() / 3));
            }
            s.ci(conf)
        }
        7 => {
            let mut s = proportion::Stats::default();
            let data: Vec<f64> = (0..c.n).map(|i| if is_success(c.pattern, i, c.n, c.k) { 0.25 } else { 0.75 }).collect();
            if c.pattern % 4 == 0 {
                s.extend_if(&data, |&x| x <= 0.5);
            } else if c.pattern % 4 == 2 {
                // in two batches (and an empty one): a batch adds to what the state already holds
                let cut = data.len() / 3;
                s.extend_if(&data[..cut].to_vec(), |&x| x <= 0.5);
                s.extend_if(&Vec::<f64>::new(), |&x| x <= 0.5);
                s.extend_if(&data[cut..].to_vec(), |&x| x <= 0.5);
            } else {
                let calls = std::cell::Cell::new(0u64);
                s.extend_if(&data, |_| {
                    let i = calls.get();
                    calls.set(i + 1);
                    i < c.n && is_success(c.pattern, i, c.n, c.k)
                });
            }
            s.ci(conf)
        }
        8 => {
            let mut s = proportion::Stats::default();
            for i in 0..c.n {
                if is_success(c.pattern, i, c.n, c.k) {
                    s.add_success()
                } else {
                    s.add_failure()
                }
            }
            s.ci(conf)
        }
        9 => proportion::Stats::new(n, k).ci(conf),
        _ => proportion::ci_z_normal(conf, n, k),
    })
}

fn describe(o: &Out<Interval<f64>>) -> String {
    o.describe()
}

/// check of one (n, k, confidence, front-end); `zs` caches (z, dz) per confidence
pub fn check(c: &Case, z: f64, dz: f64, obs: &mut Obs) -> PResult {
    let front = FRONTS[c.front as usize];
    let kind = c.conf.kind_name();
    let (n, k) = (c.n, c.k);
    obs.eval();
    let out = run_front(c);
    if c.front == WALD {
        return check_wald(c, z, dz, out, obs);
    }
    // domain: which errors are applicable
    let mut applicable: Vec<EK> = vec![];
    if k > n {
        applicable.push(EK::InvalidSuccesses);
    } else {
        if k < 2 {
            applicable.push(EK::TooFewSuccesses);
        }
        if n - k < 2 {
            applicable.push(EK::TooFewFailures);
        }
    }
    if !applicable.is_empty() {
        obs.class(&format!("rejected/{:?}", applicable[0]));
        return match out {
            Out::Err(e) => {
                let got = ek(&e);
                // the ratio front-end documents NonPositiveValue for a ratio of 0
                if c.front == 2 && k == 0 && got == EK::NonPositiveValue {
                    return Ok(());
                }
                ensure!(applicable.contains(&got), format!("C02/{front}/wrong_error"), "{front}(n={n}, k={k}) = Err({e:?}), applicable: {applicable:?}");
                match e {
                    CIError::InvalidSuccesses(a, b) => ensure!(a as u64 == k && b as u64 == n, format!("C02/{front}/error_payload"), "InvalidSuccesses({a}, {b}) for k={k}, n={n}"),
                    CIError::TooFewSuccesses(a, b, _) => ensure!(a as u64 == k && b as u64 == n, format!("C02/{front}/error_payload"), "TooFewSuccesses({a}, {b}, _) for k={k}, n={n}"),
                    CIError::TooFewFailures(a, b, _) => ensure!(a as u64 == n - k && b as u64 == n, format!("C02/{front}/error_payload"), "TooFewFailures({a}, {b}, _) for n-k={}, n={n}", n - k),
                    _ => {}
                }
                Ok(())
            }
            o => crate::engine::fail(format!("C02/{front}/accepts_outside_domain"), format!("{front}(n={n}, k={k}, {:?}) = {} but {applicable:?} applies", c.conf, describe(&o))),
        };
    }
    let i = match out {
        Out::Ok(i) => i,
        o => return crate::engine::fail(format!("C02/{front}/rejects_admissible"), format!("{front}(n={n}, k={k}, {:?}) = {} although 2 <= k <= n-2", c.conf, describe(&o))),
    };
    obs.class(&format!("admissible/{kind}/{}", c.conf.level_bucket()));
    let r = wilson_ref(n, k, &c.conf, z, dz);
    let (lo, hi) = match i {
        Interval::TwoSided(a, b) => (a, b),
        other => return crate::engine::fail(format!("C02/{front}/kind"), format!("{front}(n={n}, k={k}, {:?}) = {other:?}: proportion intervals are two-sided values with 0 / 1 as far ends", c.conf)),
    };
    let (want_lo, want_hi, finite_lo, finite_hi) = match c.conf.kind {
        0 => (r.center - r.span.abs(), r.center + r.span.abs(), true, true),
        1 => (r.center - r.span, 1.0, true, false),
        _ => (0.0, r.center + r.span, false, true),
    };
    if !finite_lo {
        ensure!(lo.to_bits() == 0.0f64.to_bits(), format!("C02/{front}/far_end/{kind}"), "{front}(n={n}, k={k}, {:?}) = [{lo:e}, {hi:e}]: far end must be exactly 0", c.conf);
    }
    if !finite_hi {
        ensure!(hi == 1.0, format!("C02/{front}/far_end/{kind}"), "{front}(n={n}, k={k}, {:?}) = [{lo:e}, {hi:e}]: far end must be exactly 1", c.conf);
    }
    let phat = k as f64 / n as f64;
    for (name, got, want, finite) in [("lower", lo, want_lo, finite_lo), ("upper", hi, want_hi, finite_hi)] {
        if !finite {
            continue;
        }
        ensure!((0.0..=1.0).contains(&got), format!("C02/{front}/outside_unit_interval"), "{front}(n={n}, k={k}, {:?}): {name} bound {got:e} outside [0,1]", c.conf);
        let d = (got - want).abs();
        let below_half = if c.conf.kind != 0 && c.conf.l() < 0.5 { "/level_below_half" } else { "" };
        ensure!(d <= r.tol, format!("C02/{front}/closed_form/{kind}{below_half}"), "{front}(n={n}, k={k}, {:?}): {name} bound {got:.17e}, Wilson root {want:.17e} (diff {d:e} > tol {:e}, z = {z})", c.conf, r.tol);
        obs.headroom("wilson_closed_form", d / r.tol, || json!({"n": n, "k": k, "conf": c.conf}));
        // (b) the bound is a root of the score equation
        let nf = n as f64;
        let g = (got - phat) * (got - phat) - z * z * got * (1.0 - got) / nf;
        let dg = (2.0 * (got - phat) - z * z * (1.0 - 2.0 * got) / nf).abs();
        let allowed = r.tol * dg + 16.0 * f64::EPSILON * (got * got + phat * phat + z * z / nf);
        ensure!(g.abs() <= allowed, format!("C02/{front}/score_equation/{kind}"), "{front}(n={n}, k={k}, {:?}): {name} bound {got:e} leaves residual {g:e} in the score equation (allowed {allowed:e})", c.conf);
        // the signed root: on the side of k/n that the sign of z prescribes
        let side_ok = match (name, c.conf.kind) {
            ("lower", _) => (phat - got) * z.signum() >= -r.tol,
            (_, _) => (got - phat) * z.signum() >= -r.tol,
        };
        ensure!(side_ok, format!("C02/{front}/root_side/{kind}"), "{front}(n={n}, k={k}, {:?}): {name} bound {got:e} is on the wrong side of k/n = {phat:e} for z = {z:e}", c.conf);
    }
    if obs.wants_sample(&format!("admissible/{kind}")) {
        obs.sample(&format!("admissible/{kind}"), || json!({"n": n, "k": k, "conf": c.conf, "front_end": front, "result": [lo, hi], "reference": [want_lo, want_hi], "z": z}));
    }
    Ok(())
}

fn check_wald(c: &Case, z: f64, dz: f64, out: Out<Interval<f64>>, obs: &mut Obs) -> PResult {
    let (n, k) = (c.n, c.k);
    let kind = c.conf.kind_name();
    let mut applicable: Vec<EK> = vec![];
    if k > n {
        applicable.push(EK::InvalidSuccesses);
    } else {
        if k < 10 {
            applicable.push(EK::TooFewSuccesses);
        }
        if n - k < 10 {
            applicable.push(EK::TooFewFailures);
        }
    }
    if !applicable.is_empty() {
        obs.class(&format!("wald/rejected/{:?}", applicable[0]));
        return match out {
            Out::Err(e) => {
                ensure!(applicable.contains(&ek(&e)), "C02/ci_z_normal/wrong_error", "ci_z_normal(n={n}, k={k}) = Err({e:?}), applicable: {applicable:?}");
                Ok(())
            }
            o => crate::engine::fail("C02/ci_z_normal/accepts_outside_domain", format!("ci_z_normal(n={n}, k={k}, {:?}) = {} but {applicable:?} applies (n*p = {k}, n*q = {})", c.conf, describe(&o), n.wrapping_sub(k))),
        };
    }
    let p = k as f64 / n as f64;
    let span = z * (p * (1.0 - p) / n as f64).sqrt();
    let (want_lo, want_hi) = match c.conf.kind {
        0 => (p - span.abs(), p + span.abs()),
        1 => (p - span, 1.0),
        _ => (0.0, p + span),
    };
    let tol = 4.0 * f64::EPSILON * (1.0 + z.abs()) + dz;
    let i = match out {
        Out::Ok(i) => i,
        Out::Err(CIError::IntervalError(_)) if want_lo > want_hi => {
            obs.exclude("Wald bound beyond the far end 0/1 (formula leaves [0,1]; only possible outside the level range of the property)");
            return Ok(());
        }
        o => return crate::engine::fail("C02/ci_z_normal/rejects_admissible", format!("ci_z_normal(n={n}, k={k}, {:?}) = {} although n*p = {k} >= 10 and n*q = {} >= 10", c.conf, describe(&o), n - k)),
    };
    obs.class(&format!("wald/admissible/{kind}"));
    let (lo, hi) = match i {
        Interval::TwoSided(a, b) => (a, b),
        other => return crate::engine::fail("C02/ci_z_normal/kind", format!("ci_z_normal(n={n}, k={k}) = {other:?}")),
    };
    for (name, got, want) in [("lower", lo, want_lo), ("upper", hi, want_hi)] {
        let d = (got - want).abs();
        ensure!(d <= tol, format!("C02/ci_z_normal/formula/{kind}"), "ci_z_normal(n={n}, k={k}, {:?}): {name} bound {got:.17e}, Wald formula {want:.17e} (diff {d:e} > tol {tol:e})", c.conf);
        obs.headroom("wald_formula", d / tol, || json!({"n": n, "k": k, "conf": c.conf}));
    }
    if c.conf.kind == 1 {
        ensure!(hi == 1.0, "C02/ci_z_normal/far_end", "upper one-sided Wald interval must end at exactly 1, got {hi:e}");
    }
    if c.conf.kind == 2 {
        ensure!(lo == 0.0, "C02/ci_z_normal/far_end", "lower one-sided Wald interval must start at exactly 0, got {lo:e}");
    }
    Ok(())
}

/// front-ends must return exactly (bit for bit) what `ci_wilson` returns for the counts they imply
pub fn check_front_agreement(c: &Case, obs: &mut Obs) -> PResult {
    let front = FRONTS[c.front as usize];
    obs.eval();
    let base = run_front(&Case { front: 1, ..c.clone() });
    let got = run_front(c);
    let same = match (&base, &got) {
        (Out::Ok(a), Out::Ok(b)) => crate::model::bits_eq(a, b),
        (Out::Err(a), Out::Err(b)) => ek(a) == ek(b) || (c.front == 2 && c.k == 0),
        _ => false,
    };
    obs.class(&format!("front/{front}"));
    ensure!(same, format!("C02/{front}/differs_from_counts"), "{front} for n={}, k={}, {:?} = {}, but ci_wilson on the counts = {}", c.n, c.k, c.conf, describe(&got), describe(&base));
    Ok(())
}

/// the success-ratio front-end on populations beyond 2^50: the count it implies is round(ratio * n); the exact product
/// and its f64 rounding may round differently at a tie, so either reading is accepted — nothing else
pub fn ratio_big_case(c: &Case, obs: &mut Obs) -> PResult {
    ratio_case(&RatioCase { n: c.n, k: c.k, ratio: crate::fl::X(c.k as f64 / c.n as f64), conf: c.conf }, obs)
}
/// an arbitrary success ratio (not necessarily of the form k / n, possibly a little above 1)
#[derive(Clone, Debug, Serialize, Deserialize)]
pub struct RatioCase {
    pub n: u64,
    /// the count the ratio was derived from (for the message only)
    pub k: u64,
    pub ratio: crate::fl::X,
    pub conf: Conf,
}
pub fn ratio_case(c: &RatioCase, obs: &mut Obs) -> PResult {
    use crate::exact::Dy;
    use num_bigint::BigInt;
    use num_traits::{Signed, ToPrimitive};
    let conf = c.conf.get();
    let n = c.n as usize;
    let ratio = c.ratio.0;
    // exact product ratio * n, rounded half away from zero
    let p = Dy::from_f64(ratio);
    let prod = p.num.clone() * BigInt::from(c.n); // times 2^exp
    let k_exact: Option<u64> = if p.exp >= 0 {
        (prod.clone() << p.exp as usize).to_u64()
    } else {
        let sh = (-p.exp) as usize;
        let half = BigInt::from(1u8) << (sh - 1);
        ((prod.abs() + half) >> sh).to_u64()
    };
    let k_float = (ratio * c.n as f64).round() as u64;
    obs.eval();
    let got = call(|| proportion::ci_wilson_ratio(conf, n, ratio));
    if !(ratio > 0.0) {
        obs.exclude("ratio <= 0 (outside the ratio form's own domain)");
        return Ok(());
    }
    if ratio == 0.0 && matches!(got, Out::Err(_)) {
        // a ratio of exactly 0 is outside the documented domain of the ratio form (NonPositiveValue)
        obs.exclude("ratio 0 (rejected by the ratio form itself)");
        return Ok(());
    }
    let mut candidates = vec![k_float];
    if let Some(k) = k_exact {
        if k != k_float {
            candidates.push(k);
        }
    }
    let ok = candidates.iter().any(|&k| {
        let base = call(|| proportion::ci_wilson(conf, n, k as usize));
        match (&base, &got) {
            (Out::Ok(a), Out::Ok(b)) => crate::model::bits_eq(a, b),
            (Out::Err(a), Out::Err(b)) => ek(a) == ek(b),
            _ => false,
        }
    });
    ensure!(ok, "C02/ci_wilson_ratio/differs_from_counts", "ci_wilson_ratio(n={}, ratio={ratio:e} = {}/n, {:?}) = {} agrees with ci_wilson for neither reading of round(ratio n): {candidates:?}", c.n, c.k, c.conf, describe(&got));
    obs.class(if c.n > (1u64 << 50) { "front/ci_wilson_ratio/huge-n" } else if ratio > 1.0 { "front/ci_wilson_ratio/ratio>1" } else { "front/ci_wilson_ratio/arbitrary-ratio" });
    obs.nontrivial(&("ratio", c.n, ratio.to_bits(), c.conf.kind, c.conf.l().to_bits()));
    Ok(())
}

pub fn is_significant_case(nk: &(u64, u64), obs: &mut Obs) -> PResult {
    let (n, k) = *nk;
    obs.eval();
    let want = n > 30 && k > 5 && n - k > 5;
    let got = crate::engine::guard(|| (proportion::is_significant(n as usize, k as usize), proportion::Stats::new(n as usize, k as usize).is_significant()));
    match got {
        Ok((a, b)) => {
            ensure!(a == want, "C02/is_significant", "is_significant({n}, {k}) = {a}, documented rule gives {want}");
            ensure!(b == want, "C02/Stats::is_significant", "Stats::new({n}, {k}).is_significant() = {b}, documented rule gives {want}");
        }
        Err(p) => return crate::engine::fail("C02/is_significant/panic", format!("is_significant({n}, {k}) panicked: {p}")),
    }
    obs.class(if want { "is_significant/true" } else { "is_significant/false" });
    Ok(())
}

pub fn case(c: &Case, obs: &mut Obs) -> PResult {
    let cz = crit_z(&c.conf);
    if c.front != 1 && c.front != WALD && c.k <= c.n {
        check_front_agreement(c, obs)?;
    }
    check(c, cz.c, cz.dc, obs)
}

pub const GRID_LEVELS: [f64; 14] = [1e-300, 1e-17, 1e-12, 1e-8, 1e-5, 0.001, 0.3, 0.5, 0.8, 0.9, 0.95, 0.99, 0.9999, 0.99999999];

fn big_nk() -> impl Strategy<Value = (u64, u64)> {
    let n = prop_oneof![
        3 => 4u64..(1u64 << 40),
        1 => 4u64..5000,
        1 => ((1u64 << 62) - 1000)..((1u64 << 62) + 1000),
        1 => (u64::MAX - 1000)..=u64::MAX,
    ];
    (n, any::<u64>(), 0u8..6).prop_map(|(n, r, mode)| {
        let k = match mode {
            0 => ((r as u128 * (n as u128 + 1)) >> 64) as u64, // uniform 0..=n
            1 => r % 12,                                       // near 0
            2 => n - (r % 12).min(n),                          // near n
            3 => n / 2,
            4 => n.saturating_add(1 + r % 3),                   // k > n
            _ => (n as f64 * 0.29) as u64,
        };
        (n, k)
    })
}

pub fn run(run: &mut Run) {
    run.technique = "bounded exhaustive enumeration of all (n,k) up to a bound x level grid x kinds x front-ends + proptest random (n,k) up to 2^64; oracle = closed-form Wilson roots with an independent normal quantile, score-equation residual, Wald formula, integer domain rules, bit-equality across front-ends".into();
    run.rule = "every (n,k), 0 <= k <= n+1, n <= N (quick 600, thorough 4000) x 14 levels (1e-300 … 1-1e-8) x 3 kinds through ci_wilson and ci_z_normal; all ten other front-ends for n <= 80 (quick) / 200 (thorough) and sampled beyond; random (n,k) up to usize::MAX with random confidences; is_significant on the whole grid; non-trivial = admissible counts (2 <= k <= n-2, resp. k >= 10 and n-k >= 10 for Wald); each enumerated case is distinct by construction".into();
    crate::meanref::selftest_into(run);
    let nmax: u64 = run.tier.pick(600, 4000);
    let front_nmax: u64 = run.tier.pick(80, 200);
    let confs: Vec<(Conf, f64, f64)> = GRID_LEVELS
        .iter()
        .flat_map(|&l| (0u8..3).map(move |k| Conf::new(k, l)))
        .map(|c| {
            let z = crit_z(&c);
            (c, z.c, z.dc)
        })
        .collect();
    let confs_ref = &confs;
    run.par((nmax + 1) as usize, |ni, obs| {
        let n = ni as u64;
        for k in 0..=n + 1 {
            let adm = k >= 2 && k + 2 <= n;
            for (conf, z, dz) in confs_ref {
                for front in [1u8, WALD] {
                    let c = Case { n, k, conf: *conf, front, pattern: 0 };
                    let mut f = |c: &Case, obs: &mut Obs| check(c, *z, *dz, obs);
                    crate::engine::case_on(obs, "grid", &c, &mut f);
                    if adm && front == 1 {
                        obs.nontrivial_enum(1);
                    }
                    if front == WALD && k >= 10 && k + 10 <= n {
                        obs.nontrivial_enum(1);
                    }
                }
                // cheap front-ends on the whole grid
                for front in [0u8, 2, 9] {
                    if k > n && front == 9 {
                        continue; // Stats::new(k > n) panics by documentation
                    }
                    if n == 0 && front == 2 {
                        continue; // 0/0 ratio
                    }
                    let c = Case { n, k, conf: *conf, front, pattern: 0 };
                    crate::engine::case_on(obs, "front", &c, check_front_agreement);
                    if adm {
                        obs.nontrivial_enum(1);
                    }
                }
            }
            if k <= n {
                crate::engine::case_on(obs, "is_significant", &(n, k), is_significant_case);
            }
            // data-driven front-ends: O(n) each
            if n <= front_nmax && k <= n {
                for (ci, (conf, _, _)) in confs_ref.iter().enumerate() {
                    if ci % 3 != (n as usize + k as usize) % 3 {
                        continue; // one kind per (n,k), rotating; all levels
                    }
                    for front in 3u8..=8 {
                        let c = Case { n, k, conf: *conf, front, pattern: (n + k + front as u64) as u8 % 4 };
                        crate::engine::case_on(obs, "front", &c, check_front_agreement);
                        if adm {
                            obs.nontrivial_enum(1);
                        }
                    }
                }
            }
        }
    });
    run.exhaustive = true;
    run.exhaustive_parts.push(format!("all (n,k) with 0 <= k <= n+1, n <= {nmax} x 8 levels x 3 kinds for ci_wilson, ci_z_normal, ci, ci_wilson_ratio, Stats::new; data-driven front-ends for n <= {front_nmax}; is_significant on all k <= n"));
    // random beyond the grid
    let cases = run.tier.pick(100_000u32, 4_000_000);
    let s = (big_nk(), crate::gen::conf(), prop::sample::select(vec![0u8, 1, 2, 9, WALD])).prop_map(|((n, k), conf, front)| Case { n, k, conf, front: if (k > n && front == 9) || (front == 2 && n > (1u64 << 50)) { 1 } else { front }, pattern: 0 });
    {
        // populations in (2^50, 2^53] (where k/n no longer determines k to the unit) and beyond, counts of either parity,
        // next to both ends of the domain and in the middle
        let s = (prop_oneof![(1u64 << 50)..=(1u64 << 53), (1u64 << 52)..=(1u64 << 52) + 64, (1u64 << 53)..(1u64 << 60)], any::<u64>(), 0u8..4, crate::gen::conf()).prop_map(|(n, r, place, conf)| {
            let k = match place {
                0 => r % 8,
                1 => n - (r % 8),
                _ => ((r as u128 * (n as u128 + 1)) >> 64) as u64,
            };
            Case { n, k: k.min(n), conf, front: 2, pattern: 0 }
        });
        run.prop("ratio_big", run.tier.pick(20_000, 1_000_000), s, ratio_big_case);
        run.require_class("front/ci_wilson_ratio/huge-n");
        // arbitrary ratios on small and moderate populations: the implied count is round(ratio n), also for ratios a
        // little above 1 (which still round to n, or to more than n)
        let s = (1u64..400, 0u32..=1_300_000, crate::gen::conf(), 0u8..4).prop_map(|(n, r, conf, mode)| {
            let ratio = match mode {
                0 => r as f64 / 1_000_000.0,
                1 => 1.0 + (r as f64 / 1_300_000.0) * 0.75 / n as f64,
                2 => 1.0 + f64::EPSILON * (1 + r % 4) as f64,
                _ => ((r as u64 % (n + 2)) as f64 + 0.5 * (r % 3) as f64 - 0.5) / n as f64,
            };
            RatioCase { n, k: 0, ratio: crate::fl::X(ratio), conf }
        });
        run.prop("ratio_any", run.tier.pick(40_000, 1_500_000), s, ratio_case);
        run.require_class("front/ci_wilson_ratio/ratio>1");
    }
    run.prop("random_big", cases, s, |c, obs| {
        obs.nontrivial(&(c.n, c.k, c.conf.kind, c.conf.l().to_bits(), c.front));
        case(c, obs)
    });
    // data-driven front-ends on sampled larger n
    let s = (61u64..3000, any::<u64>(), crate::gen::conf(), 3u8..=8, 0u8..4).prop_map(|(n, r, conf, front, pattern)| Case { n, k: ((r as u128 * (n as u128 + 1)) >> 64) as u64, conf, front, pattern });
    run.prop("random_front", run.tier.pick(10_000, 300_000), s, |c, obs| {
        obs.nontrivial(&(c.n, c.k, c.conf.kind, c.conf.l().to_bits(), c.front, c.pattern));
        case(c, obs)
    });
    if run.tier == Tier::Quick || run.tier == Tier::Thorough {
        for f in ["ci", "ci_wilson_ratio", "ci_true", "ci_if", "Stats::from_iter+ci", "Stats::extend+ci", "Stats::extend_if+ci", "Stats::add_success/add_failure+ci", "Stats::new+ci"] {
            run.require_class(&format!("front/{f}"));
        }
        for c in ["wald/admissible/two", "wald/admissible/upper", "wald/admissible/lower", "wald/rejected/TooFewSuccesses", "wald/rejected/TooFewFailures", "rejected/InvalidSuccesses", "rejected/TooFewSuccesses", "rejected/TooFewFailures", "admissible/upper/L<.5", "is_significant/true", "is_significant/false"] {
            run.require_class(c);
        }
    }
    run.assumptions.push("bounds are compared within 1e-13 absolute plus the quantile allowance (DESIGN §4.4); n*p and n*q of the Wald rule are the integers k and n-k".into());
    run.assumptions.push("for one-sided levels below 1/2 the finite bound is the signed root (z < 0), which is what a one-sided interval at that level means".into());
    crate::props::history::add(run, "C02", &[crate::props::history::WILSON, crate::props::history::WALD, crate::props::history::PSTATS], 3_000, 200_000);
}

pub fn replay(sub: &str, v: &Value, obs: &mut Obs) -> Option<PResult> {
    Some(match sub {
        "history" => crate::props::history::case(&de(v), obs),
        "grid" | "random_big" | "random_front" => case(&de(v), obs),
        "ratio_big" => ratio_big_case(&de(v), obs),
        "ratio_any" => ratio_case(&de(v), obs),
        "front" => check_front_agreement(&de(v), obs),
        "is_significant" => is_significant_case(&de(v), obs),
        _ => return None,
    })
}
