//! C08 — compensated summation error is O(u * sum|x|), independent of the number of terms.

use crate::engine::{Obs, PResult, Run, SplitMix};
use crate::exact::exact_sum;
use crate::fl::{Fl, X};
use crate::props::de;
use proptest::prelude::*;
use serde::{Deserialize, Serialize};
use serde_json::{json, Value};
use stats_ci::mean::Arithmetic;
use stats_ci::utils::KahanSum;
use stats_ci::StatisticsOps;

pub const PATTERNS: [&str; 6] = ["constant", "same-sign", "mixed-magnitude", "cancelling-pairs", "huge-then-small", "tiny-increments"];
pub const HISTORIES: [&str; 8] = ["stream+=", "by-value+", "left-fold", "balanced-tree", "random-tree", "left-fold-with-empties", "from/new-start", "right-fold"];

#[derive(Clone, Debug, Serialize, Deserialize)]
pub struct Case {
    pub f32: bool,
    pub pattern: u8,
    pub n: u32,
    /// all pseudo-random expansion below is a pure function of this proptest-generated seed
    pub seed: u64,
    /// scale / constant
    pub c: X,
    pub history: u8,
    /// leaf size for the tree histories (>= 1)
    pub chunk: u32,
}

pub fn sequence<F: Fl>(c: &Case) -> Vec<F> {
    let mut g = SplitMix(c.seed);
    let n = c.n as usize;
    let sc = c.c.0;
    let mut v: Vec<F> = Vec::with_capacity(n);
    match c.pattern % 6 {
        0 => v.resize(n, F::from64(sc)),
        1 => {
            for _ in 0..n {
                v.push(F::from64(sc * (0.5 + g.unit())));
            }
        }
        2 => {
            for _ in 0..n {
                let m = (2f64).powf(20.0 * g.unit() - 10.0);
                let s = if g.next() & 1 == 0 { 1.0 } else { -1.0 };
                v.push(F::from64(sc * s * m));
            }
        }
        3 => {
            let mut i = 0;
            while i < n {
                let x = F::from64(sc * (1.0 + g.unit()));
                v.push(x);
                i += 1;
                if i < n {
                    let d = F::from64(sc * 1e-5 * g.unit());
                    v.push(-x + d);
                    i += 1;
                }
            }
        }
        4 => {
            for i in 0..n {
                if i == 0 {
                    v.push(F::from64(sc * 1048576.0));
                } else {
                    v.push(F::from64(sc * (0.5 + g.unit())));
                }
            }
        }
        _ => {
            for i in 0..n {
                if i == 0 {
                    v.push(F::from64(sc));
                } else {
                    v.push(F::from64(sc * (1.0 + g.unit()) / 1073741824.0));
                }
            }
        }
    }
    v
}

fn comp_nonzero<F: Fl>(k: &KahanSum<F>) -> bool {
    // internal register, read from the Debug image (classification only)
    let s = format!("{k:?}");
    match s.split("compensation:").nth(1) {
        Some(rest) => {
            let t = rest.trim().trim_end_matches('}').trim();
            !(t == "0.0" || t == "-0.0" || t == "0" || t == "-0")
        }
        None => false,
    }
}

/// run the history; returns (value, merge nesting depth, merges whose right operand had non-zero compensation)
pub fn run_history<F: Fl>(c: &Case, seq: &[F]) -> (F, u32, u32) {
    let mut nzc = 0u32;
    let leaf = |xs: &[F]| -> KahanSum<F> {
        let mut k = KahanSum::<F>::default();
        for &x in xs {
            k += x;
        }
        k
    };
    let chunk = (c.chunk.max(1)) as usize;
    match c.history % 8 {
        0 => {
            let mut k = KahanSum::<F>::default();
            for &x in seq {
                k += x;
            }
            (k.value(), 0, 0)
        }
        1 => {
            let mut k = KahanSum::<F>::new(F::zero());
            for &x in seq {
                k = k + x;
            }
            (k.value(), 0, 0)
        }
        6 => {
            if seq.is_empty() {
                return (KahanSum::<F>::default().value(), 0, 0);
            }
            let mut k: KahanSum<F> = if c.seed & 1 == 0 { KahanSum::from(seq[0]) } else { KahanSum::new(seq[0]) };
            for &x in &seq[1..] {
                k += x;
            }
            (k.value(), 0, 0)
        }
        7 => {
            // right fold: the accumulated register is always the right operand of `+`
            let mut acc = KahanSum::<F>::default();
            let mut d = 0;
            for xs in seq.chunks(chunk) {
                let l = leaf(xs);
                if comp_nonzero(&acc) {
                    nzc += 1;
                }
                acc = l + acc;
                d += 1;
            }
            (acc.value(), d, nzc)
        }
        2 | 5 => {
            let mut acc = KahanSum::<F>::default();
            for (i, xs) in seq.chunks(chunk).enumerate() {
                let l = leaf(xs);
                if comp_nonzero(&l) {
                    nzc += 1;
                }
                if c.history % 8 == 5 && i % 3 == 0 {
                    acc += KahanSum::<F>::default();
                    acc = KahanSum::<F>::default() + acc;
                }
                if i % 2 == 0 {
                    acc += l;
                } else {
                    acc = acc + l;
                }
            }
            (acc.value(), if c.history % 8 == 5 { 2 } else { 1 }, nzc)
        }
        3 => {
            let mut level: Vec<KahanSum<F>> = seq.chunks(chunk).map(leaf).collect();
            if level.is_empty() {
                level.push(KahanSum::default());
            }
            let mut depth = 0;
            while level.len() > 1 {
                let mut next = Vec::with_capacity(level.len() / 2 + 1);
                for pair in level.chunks(2) {
                    if pair.len() == 2 {
                        if comp_nonzero(&pair[1]) {
                            nzc += 1;
                        }
                        next.push(pair[0] + pair[1]);
                    } else {
                        next.push(pair[0]);
                    }
                }
                level = next;
                depth += 1;
            }
            (level[0].value(), depth, nzc)
        }
        _ => {
            // random tree: repeatedly merge two random adjacent registers; track nesting depth
            let mut g = SplitMix(c.seed ^ 0xabcdef);
            // at most ~4000 leaves so that the quadratic bookkeeping stays cheap
            let chunk = chunk.max((seq.len() + 3999) / 4000).max(1);
            let mut regs: Vec<(KahanSum<F>, u32)> = seq.chunks(chunk).map(|xs| (leaf(xs), 0u32)).collect();
            if regs.is_empty() {
                regs.push((KahanSum::default(), 0));
            }
            // keep the number of merges bounded for very long inputs by pre-folding
            while regs.len() > 1 {
                let i = g.below(regs.len() as u64 - 1) as usize;
                let (r, dr) = regs.remove(i + 1);
                if comp_nonzero(&r) {
                    nzc += 1;
                }
                let (l, dl) = regs[i];
                let mut m = l;
                m += r;
                regs[i] = (m, dl.max(dr) + 1);
            }
            (regs[0].0.value(), regs[0].1, nzc)
        }
    }
}

fn case_generic<F: Fl>(c: &Case, obs: &mut Obs) -> PResult {
    let seq: Vec<F> = sequence::<F>(c);
    let n = seq.len();
    let pat = PATTERNS[(c.pattern % 6) as usize];
    let hist = HISTORIES[(c.history % 8) as usize];
    let s64: Vec<f64> = seq.iter().map(|x| x.to64()).collect();
    if s64.iter().any(|x| !x.is_finite()) {
        obs.exclude("sequence with a non-finite term (outside the quantifier)");
        return Ok(());
    }
    let (s, sa) = exact_sum(&s64);
    let (s, sa) = (s.to_f64(), sa.to_f64());
    if !sa.is_finite() || sa > F::max_value().to64() / 4.0 {
        obs.exclude("sum of magnitudes overflows the float type");
        return Ok(());
    }
    obs.eval();
    let (val, depth, nzc) = run_history::<F>(c, &seq);
    let u = F::U;
    let tiny = if F::IS32 { f32::from_bits(1) as f64 } else { 5e-324 };
    let k = 8.0 + 8.0 * n as f64 * u;
    let bound = k * u * sa + n as f64 * tiny;
    let err = (val.to64() - s).abs();
    let nbucket = if n < 64 { "n<64" } else if n < 10_000 { "n<1e4" } else if n < 1_000_000 { "n<1e6" } else { "n>=1e6" };
    obs.class(&format!("{}/{pat}/{nbucket}", F::NAME));
    obs.class(&format!("history/{hist}"));
    ensure!(err <= bound, format!("C08/{hist}/{pat}"), "{} {pat} x{n} via {hist} (merge depth {depth}): compensated sum {:e}, exact {s:e}, error {err:e} = {:.1} u sum|x| exceeds K = {k:.1}", F::NAME, val.to64(), err / (u * sa));
    if sa > 0.0 {
        obs.headroom(&format!("ratio_over_K/{}/{hist}", F::NAME), err / bound, || json!({"pattern": pat, "n": n, "error_in_u_sum_abs": err / (u * sa), "K": k, "depth": depth}));
    }
    // through the statistics: sample_mean * n against the exact sum (stream history only)
    if c.history % 8 == 0 && n >= 1 {
        let mut a = Arithmetic::<F>::new();
        for &x in &seq {
            StatisticsOps::append(&mut a, x).unwrap();
        }
        let m = a.sample_mean().to64();
        let e2 = (m * n as f64 - s).abs();
        let b2 = (k + 4.0) * u * sa + n as f64 * tiny + 2.0 * f64::EPSILON * s.abs();
        ensure!(e2 <= b2, format!("C08/Arithmetic_sum/{pat}"), "{} {pat} x{n}: sample_mean * n = {:e}, exact sum {s:e}, error {e2:e} > {b2:e}", F::NAME, m * n as f64);
    }
    let nontrivial = (n >= 64 && (pat == "constant" || pat == "same-sign" || pat == "huge-then-small" || pat == "tiny-increments" || s.abs() >= sa / 8.0)) || nzc > 0;
    if nontrivial {
        obs.nontrivial(&(c.f32, c.pattern % 6, c.n, c.seed, c.c.0.to_bits(), c.history % 8, c.chunk));
        if nzc > 0 {
            obs.class("merge-with-nonzero-compensation");
        }
        let cls = format!("nontrivial/{}/{hist}", F::NAME);
        if obs.wants_sample(&cls) {
            obs.sample(&cls, || json!({"type": F::NAME, "pattern": pat, "n": n, "history": hist, "chunk": c.chunk, "first_terms": s64.iter().take(5).collect::<Vec<_>>(), "exact_sum": s, "sum_abs": sa, "compensated": val.to64(), "error_in_u_sum_abs": if sa > 0.0 { err / (u * sa) } else { 0.0 }, "merges_with_nonzero_compensation": nzc}));
        }
    } else {
        obs.class("trivial");
    }
    Ok(())
}
pub fn case(c: &Case, obs: &mut Obs) -> PResult {
    if c.f32 {
        case_generic::<f32>(c, obs)
    } else {
        case_generic::<f64>(c, obs)
    }
}

/// The statistics built on the compensated sums inherit the bound, also when partial *states* are merged:
/// chunks become `Arithmetic` states that are combined by `+` / `+=` along the history; the sum is read back as
/// mean * n and the sum of squares as variance * (n-1) + mean * sum.
fn arith_generic<F: Fl>(c: &Case, obs: &mut Obs) -> PResult {
    let seq: Vec<F> = sequence::<F>(c);
    let n = seq.len();
    if n < 2 {
        return Ok(());
    }
    let pat = PATTERNS[(c.pattern % 6) as usize];
    let s64: Vec<f64> = seq.iter().map(|x| x.to64()).collect();
    let sq64: Vec<f64> = seq.iter().map(|x| (*x * *x).to64()).collect();
    if s64.iter().chain(sq64.iter()).any(|x| !x.is_finite()) {
        obs.exclude("sequence whose terms or squares are not finite");
        return Ok(());
    }
    let (s1, sa1) = exact_sum(&s64);
    let (s2, _) = exact_sum(&sq64);
    let (s1, sa1, s2) = (s1.to_f64(), sa1.to_f64(), s2.to_f64());
    if !(s2.is_finite() && s2 < F::max_value().to64() / 4.0) || s2 < F::min_positive_value().to64() * 1e6 {
        obs.exclude("sum of squares outside the normal range of the float type");
        return Ok(());
    }
    obs.eval();
    let chunk = (c.chunk.max(1)) as usize;
    let leaves: Vec<Arithmetic<F>> = seq.chunks(chunk).map(|xs| <Arithmetic<F> as StatisticsOps<F>>::from_iter(&xs.to_vec()).unwrap()).collect();
    // round 11: a fifth history, the accumulated state as the *right* operand of `+=` (`fresh += acc; acc = fresh`)
    let hsel = c.history % 5;
    let hist = ["left-fold", "right-fold", "balanced-tree", "alternating-fold", "right-fold+="][hsel as usize];
    let state: Arithmetic<F> = match hsel {
        0 => {
            let mut acc = Arithmetic::<F>::new();
            for (i, l) in leaves.iter().enumerate() {
                if i % 2 == 0 {
                    acc += *l;
                } else {
                    acc = acc + *l;
                }
            }
            acc
        }
        1 => {
            let mut acc = Arithmetic::<F>::new();
            for l in leaves.iter() {
                acc = *l + acc;
            }
            acc
        }
        2 => {
            let mut level = leaves.clone();
            while level.len() > 1 {
                level = level.chunks(2).map(|p| if p.len() == 2 { p[0] + p[1] } else { p[0] }).collect();
            }
            level[0]
        }
        3 => {
            let mut acc = Arithmetic::<F>::new();
            for (i, l) in leaves.iter().enumerate() {
                acc = if i % 2 == 0 { acc + *l } else { *l + acc };
            }
            acc
        }
        _ => {
            let mut acc = Arithmetic::<F>::new();
            for l in leaves.iter() {
                let mut fresh = *l;
                fresh += acc;
                acc = fresh;
            }
            acc
        }
    };
    ensure!(state.sample_count() == n, format!("C08/arithmetic_merge/{hist}/count"), "merged count {} for {n} terms", state.sample_count());
    let u = F::U;
    let k = 8.0 + 8.0 * n as f64 * u;
    let nf = n as f64;
    let mean = state.sample_mean().to64();
    let var = state.sample_variance().to64();
    let sum_rec = mean * nf;
    let e1 = (sum_rec - s1).abs();
    let b1 = (k + 4.0) * u * sa1 + f64::MIN_POSITIVE;
    ensure!(e1 <= b1, format!("C08/arithmetic_merge/{hist}/sum/{pat}"), "{} {pat} x{n} in chunks of {chunk} merged by {hist}: mean * n = {sum_rec:e}, exact sum {s1:e}, error {e1:e} = {:.1} u sum|x|", F::NAME, e1 / (u * sa1));
    let sq_rec = var * (nf - 1.0) + mean * sum_rec;
    let e2 = (sq_rec - s2).abs();
    let b2 = (k + 12.0) * u * (s2 + nf * mean * mean) + f64::MIN_POSITIVE;
    ensure!(e2 <= b2, format!("C08/arithmetic_merge/{hist}/sum_of_squares/{pat}"), "{} {pat} x{n} in chunks of {chunk} merged by {hist}: variance * (n-1) + mean * sum = {sq_rec:e}, exact sum of squares {s2:e}, error {e2:e} = {:.1} u sum x^2", F::NAME, e2 / (u * s2));
    obs.headroom(&format!("arithmetic_merge/{}/{hist}", F::NAME), (e1 / b1).max(e2 / b2), || json!({"pattern": pat, "n": n, "chunk": chunk, "sum_err_u": e1 / (u * sa1), "sumsq_err_u": e2 / (u * s2)}));
    obs.class(&format!("arithmetic_merge/{hist}"));
    if leaves.len() >= 8 {
        obs.nontrivial(&("arith", c.f32, c.pattern % 6, c.n, c.seed, c.c.0.to_bits(), hsel, c.chunk));
    }
    Ok(())
}
pub fn arith_case(c: &Case, obs: &mut Obs) -> PResult {
    if c.f32 {
        arith_generic::<f32>(c, obs)
    } else {
        arith_generic::<f64>(c, obs)
    }
}

fn scale() -> impl Strategy<Value = f64> {
    prop_oneof![
        3 => prop::sample::select(vec![0.1, 1.1, 3.3, 123.456, 1.0, 0.7, 1e-3, 2.5e4]),
        3 => (1u32..(1 << 24), -20i32..=20).prop_map(|(m, e)| m as f64 / (1 << 23) as f64 * crate::fl::pow2(e)),
        1 => (1u32..(1 << 24), -20i32..=20).prop_map(|(m, e)| -(m as f64) / (1 << 23) as f64 * crate::fl::pow2(e)),
        // sums so small that the compensation terms are subnormal (f32: scale 2^-122..2^-95; f64: 2^-1015..2^-960)
        // and so large that n x is near the top of the range
        1 => (1u32..(1 << 24), any::<bool>(), 0i32..=27).prop_map(|(m, small32, d)| m as f64 / (1 << 23) as f64 * crate::fl::pow2(if small32 { -122 + d } else { -1015 + 2 * d })),
        1 => (1u32..(1 << 24), 0i32..=20).prop_map(|(m, d)| m as f64 / (1 << 23) as f64 * crate::fl::pow2(90 - d)),
    ]
}
pub fn strategy(max_n: u32) -> impl Strategy<Value = Case> {
    let n = prop_oneof![2 => 0u32..64, 5 => 64u32..5000, 3 => 5000u32..=max_n.max(5001)];
    (any::<bool>(), 0u8..6, n, any::<u64>(), scale(), 0u8..8, prop_oneof![1u32..=7, 1u32..=1, 8u32..=5000]).prop_map(|(f32, pattern, n, seed, c, history, chunk)| Case { f32, pattern, n, seed, c: X(c), history, chunk })
}

pub fn run(run: &mut Run) {
    run.technique = "proptest random search with shrinking over (pattern, length, seed, scale, merge history); oracle = exact big-integer sum and sum of magnitudes with the bound K u sum|x|, one constant K for every merge history".into();
    run.rule = "float sequences (f32/f64; constant, same-sign, mixed magnitude over 2^±10 with mixed signs, cancelling pairs, one huge then many small, increments far below the running sum; lengths 0..10^6 quick / 10^7 thorough) x histories (+= stream, + by value, from/new start, left and right folds of registers, balanced tree, random tree, folds with empty registers); non-trivial = n >= 64 and (same-sign or |S| >= sum|x|/8), or a merge whose right operand carries non-zero compensation; distinct = all case parameters".into();
    let (cases, shards) = match run.tier {
        crate::engine::Tier::Quick => (12_000u32, 32usize),
        crate::engine::Tier::Thorough => (400_000, 256),
    };
    let seed = run.seed_for("random", 0);
    run.par(shards, |shard, obs| {
        crate::engine::prop_on(obs, "random", cases / shards as u32, crate::engine::mix(seed, "shard", shard as u64), strategy(60_000), case);
    });
    let seed_a = run.seed_for("arith", 0);
    run.par(shards, |shard, obs| {
        crate::engine::prop_on(obs, "arithmetic_merge", cases / shards as u32, crate::engine::mix(seed_a, "shard", shard as u64), strategy(20_000), arith_case);
    });
    // long streams and trees: explicit sizes
    let long: Vec<(u32, bool)> = match run.tier {
        crate::engine::Tier::Quick => vec![(100_000, true), (300_000, false), (1_000_000, true), (1_000_000, false)],
        crate::engine::Tier::Thorough => vec![(100_000, true), (1_000_000, false), (1_000_000, true), (4_000_000, true), (10_000_000, true)],
    };
    let mut jobs: Vec<Case> = vec![];
    let mut g = SplitMix(run.seed_for("long", 0));
    for &(n, f32_) in &long {
        for pattern in 0u8..6 {
            for history in [0u8, 2, 3, 4, 7] {
                if n > 1_000_000 && history == 4 {
                    continue;
                }
                let chunk = if history == 4 { (n / 2000).max(1) } else { [1u32, 7, 1000][(pattern as usize + history as usize) % 3] };
                jobs.push(Case { f32: f32_, pattern, n, seed: g.next(), c: X([0.1, 1.1, 123.456, 0.7][(pattern as usize) % 4]), history, chunk });
                if n <= 300_000 && history == 0 {
                    // the same stream at a magnitude where the compensation is subnormal
                    let tiny = if f32_ { 1.1e-36 } else { 1.1 * crate::fl::pow2(-1000) };
                    jobs.push(Case { f32: f32_, pattern, n, seed: g.next(), c: X(tiny), history, chunk });
                }
            }
        }
    }
    let jobs_ref = &jobs;
    run.par(jobs.len(), |j, obs| {
        crate::engine::case_on(obs, "long", &jobs_ref[j], case);
    });
    for h in HISTORIES {
        run.require_class(&format!("history/{h}"));
    }
    for h in ["left-fold", "right-fold", "balanced-tree", "alternating-fold", "right-fold+="] {
        run.require_class(&format!("arithmetic_merge/{h}"));
    }
    for c in ["f32/constant/n>=1e6", "f32/same-sign/n>=1e6", "f32/tiny-increments/n<1e6", "f64/cancelling-pairs/n<1e4", "merge-with-nonzero-compensation"] {
        run.require_class(c);
    }
    run.assumptions.push("K = 8 + 8 n u, the same constant for every history (stream, folds in either direction, balanced and random trees): measured worst case on the repaired tree is about 3 u sum|x|; changes that only move the constant below K are invisible".into());
}

pub fn replay(sub: &str, v: &Value, obs: &mut Obs) -> Option<PResult> {
    Some(match sub {
        "random" | "long" => case(&de(v), obs),
        "arithmetic_merge" => arith_case(&de(v), obs),
        _ => return None,
    })
}
