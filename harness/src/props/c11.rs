//! C11 — invalid input yields the documented error: never a panic or a NaN interval.
//! One outcome classifier, shared by the enumerated sweep, the proptest search and the libFuzzer target.

use crate::engine::{guard, Obs, PResult, Run};
use crate::fl::{Fl, X};
use crate::model::{bounds, call, ek, Conf, Out, EK};
use crate::props::de;
use proptest::prelude::*;
use serde::{Deserialize, Serialize};
use serde_json::{json, Value};
use stats_ci::comparison::{Paired, Unpaired};
use stats_ci::mean::{Arithmetic, Geometric, Harmonic};
use stats_ci::{proportion, quantile, Interval, MeanCI, StatisticsOps};

pub const EPS: [&str; 36] = [
    "Arithmetic::ci",
    "Arithmetic::from_iter+ci_mean",
    "<Arithmetic as MeanCI>::ci",
    "Arithmetic::append+ci_mean",
    "Geometric::ci",
    "Geometric::from_iter+ci_mean",
    "<Geometric as StatisticsOps>::ci",
    "Harmonic::ci",
    "Harmonic::from_iter+ci_mean",
    "<Harmonic as MeanCI>::ci",
    "Paired::ci",
    "Paired::extend+ci_mean",
    "Paired::extend_tuple+ci_mean",
    "Paired::append_pair+ci_mean",
    "Unpaired::ci",
    "Unpaired::from_iter+ci_mean",
    "Unpaired::new+ci_mean",
    "proportion::ci",
    "proportion::ci_wilson",
    "proportion::ci_wilson_ratio",
    "proportion::ci_z_normal",
    "proportion::ci_true",
    "proportion::ci_if",
    "proportion::is_significant",
    "proportion::Stats::new+ci",
    "proportion::Stats::is_significant",
    "quantile::ci",
    "quantile::ci_sorted_unchecked",
    "quantile::ci_max_size<8>",
    "quantile::ci_max_size<1024>",
    "quantile::ci_indices",
    "quantile::Stats::ci",
    "quantile::Stats::index",
    "Interval::relative_to",
    "Interval+Interval",
    "Interval-Interval",
];

#[derive(Clone, Debug, Serialize, Deserialize)]
pub struct Case {
    pub ep: String,
    pub f32: bool,
    pub a: Vec<X>,
    pub b: Vec<X>,
    pub n: u64,
    pub k: u64,
    /// quantile, or success ratio for ci_wilson_ratio
    pub q: X,
    pub conf: Conf,
}

#[derive(Debug, Default, Clone)]
pub struct DataClass {
    pub n: usize,
    pub nan: bool,
    pub inf: bool,
    pub nonpos: bool,
    pub constant: bool,
    pub extreme: bool,
}
pub fn classify<F: Fl>(d: &[F]) -> DataClass {
    let (hi, lo) = if F::IS32 { (1e15, 1e-15) } else { (1e120, 1e-120) };
    DataClass {
        n: d.len(),
        nan: d.iter().any(|x| x.is_nan()),
        inf: d.iter().any(|x| x.is_infinite()),
        nonpos: d.iter().any(|x| *x <= F::zero()),
        constant: d.len() >= 2 && d.iter().all(|x| *x == d[0]),
        extreme: d.iter().any(|x| x.is_finite() && *x != F::zero() && (x.abs().to64() > hi || x.abs().to64() < lo)),
    }
}
impl DataClass {
    pub fn label(&self) -> String {
        let mut v = vec![];
        if self.n == 0 {
            v.push("empty");
        } else if self.n == 1 {
            v.push("singleton");
        }
        if self.nan {
            v.push("nan");
        }
        if self.inf {
            v.push("inf");
        }
        if self.nonpos {
            v.push("nonpositive");
        }
        if self.constant {
            v.push("constant");
        }
        if self.extreme {
            v.push("extreme-magnitude");
        }
        if v.is_empty() {
            "valid".into()
        } else {
            v.join("+")
        }
    }
}

/// What the property allows for a call.
pub struct Expect {
    /// error kinds documented for the input classes that apply; non-empty => the call must return one of them
    pub applicable: Vec<EK>,
    /// a documented panic applies to this input (then a panic is also acceptable)
    pub panic_ok: Option<&'static str>,
    pub class: String,
}

/// outcome in a uniform shape: Ok((kind, lo, hi)) / Err(kind) / Panic
pub enum O {
    Ok(u8, f64, f64),
    OkOther,
    Err(EK, String),
    Panic(String),
}
fn of_float<F: Fl>(o: Out<Interval<F>>) -> O {
    match o {
        Out::Ok(i) => {
            let (k, l, h) = bounds(&i);
            O::Ok(k, l, h)
        }
        Out::Err(e) => O::Err(ek(&e), format!("{e:?}")),
        Out::Panic(p) => O::Panic(p),
    }
}
fn of_usize(o: Out<Interval<usize>>) -> O {
    match o {
        Out::Ok(Interval::TwoSided(a, b)) => O::Ok(0, a as f64, b as f64),
        Out::Ok(Interval::UpperOneSided(a)) => O::Ok(1, a as f64, f64::INFINITY),
        Out::Ok(Interval::LowerOneSided(b)) => O::Ok(2, f64::NEG_INFINITY, b as f64),
        Out::Err(e) => O::Err(ek(&e), format!("{e:?}")),
        Out::Panic(p) => O::Panic(p),
    }
}

fn mean_expect(c: &DataClass, positive_only: bool) -> Expect {
    let mut a = vec![];
    if c.n < 2 {
        a.push(EK::TooFewSamples);
    }
    if c.nan || c.inf {
        a.push(EK::InvalidInputData);
        a.push(EK::FloatConversionError);
    }
    if positive_only && c.nonpos {
        a.push(EK::NonPositiveValue);
    }
    Expect { applicable: a, panic_ok: None, class: c.label() }
}

fn run_float<F: Fl>(c: &Case) -> (O, Expect) {
    let a: Vec<F> = c.a.iter().map(|x| F::from64(x.0)).collect();
    let b: Vec<F> = c.b.iter().map(|x| F::from64(x.0)).collect();
    let conf = c.conf.get();
    let ca = classify(&a);
    let cb = classify(&b);
    let ep = c.ep.as_str();
    match ep {
        "Arithmetic::ci" => (of_float(call(|| Arithmetic::<F>::ci(conf, &a))), mean_expect(&ca, false)),
        "Arithmetic::from_iter+ci_mean" => (of_float(call(|| <Arithmetic<F> as StatisticsOps<F>>::from_iter(&a)?.ci_mean(conf))), mean_expect(&ca, false)),
        "<Arithmetic as MeanCI>::ci" => (of_float(call(|| <Arithmetic<F> as MeanCI<F>>::ci(conf, &a))), mean_expect(&ca, false)),
        "Arithmetic::append+ci_mean" => (
            of_float(call(|| {
                let mut s = Arithmetic::<F>::new();
                for x in &a {
                    StatisticsOps::append(&mut s, *x)?;
                }
                s.ci_mean(conf)
            })),
            mean_expect(&ca, false),
        ),
        "Geometric::ci" => (of_float(call(|| Geometric::<F>::ci(conf, &a))), mean_expect(&ca, true)),
        "Geometric::from_iter+ci_mean" => (of_float(call(|| <Geometric<F> as StatisticsOps<F>>::from_iter(&a)?.ci_mean(conf))), mean_expect(&ca, true)),
        "<Geometric as StatisticsOps>::ci" => (of_float(call(|| <Geometric<F> as StatisticsOps<F>>::ci(conf, &a))), mean_expect(&ca, true)),
        "Harmonic::ci" => (of_float(call(|| Harmonic::<F>::ci(conf, &a))), mean_expect(&ca, true)),
        "Harmonic::from_iter+ci_mean" => (of_float(call(|| <Harmonic<F> as StatisticsOps<F>>::from_iter(&a)?.ci_mean(conf))), mean_expect(&ca, true)),
        "<Harmonic as MeanCI>::ci" => (of_float(call(|| <Harmonic<F> as MeanCI<F>>::ci(conf, &a))), mean_expect(&ca, true)),
        "Paired::ci" | "Paired::extend+ci_mean" | "Paired::extend_tuple+ci_mean" | "Paired::append_pair+ci_mean" => {
            let tuple_like = ep == "Paired::extend_tuple+ci_mean" || ep == "Paired::append_pair+ci_mean";
            let m = a.len().min(b.len());
            let out = of_float(call(|| match ep {
                "Paired::ci" => Paired::<F>::ci(conf, &a, &b),
                "Paired::extend+ci_mean" => {
                    let mut p = Paired::<F>::default();
                    p.extend(&a, &b)?;
                    p.ci_mean(conf)
                }
                "Paired::extend_tuple+ci_mean" => {
                    let t: Vec<(F, F)> = a.iter().copied().zip(b.iter().copied()).collect();
                    let mut p = Paired::<F>::default();
                    p.extend_tuple(&t)?;
                    p.ci_mean(conf)
                }
                _ => {
                    let mut p = Paired::<F>::default();
                    for i in 0..m {
                        p.append_pair(a[i], b[i])?;
                    }
                    p.ci_mean(conf)
                }
            }));
            // class of the differences actually fed
            let d: Vec<F> = a.iter().zip(b.iter()).map(|(x, y)| *x - *y).collect();
            let cd = classify(&d);
            let mut e = mean_expect(&cd, false);
            if ca.nan || ca.inf || cb.nan || cb.inf {
                // infinities may cancel into NaN or survive: either way the documented outcome is InvalidInputData
                if !e.applicable.contains(&EK::InvalidInputData) && (cd.nan || cd.inf) {
                    e.applicable.push(EK::InvalidInputData);
                }
            }
            if !tuple_like && a.len() != b.len() {
                e.applicable.push(EK::DifferentSampleSizes);
                // with mismatched lengths the data errors of the common prefix are still possible
                e.class = format!("length-mismatch+{}", e.class);
            }
            (out, e)
        }
        "Unpaired::ci" | "Unpaired::from_iter+ci_mean" | "Unpaired::new+ci_mean" => {
            let out = of_float(call(|| match ep {
                "Unpaired::ci" => Unpaired::<F>::ci(conf, &a, &b),
                "Unpaired::from_iter+ci_mean" => Unpaired::<F>::from_iter(&a, &b)?.ci_mean(conf),
                _ => Unpaired::new(<Arithmetic<F> as StatisticsOps<F>>::from_iter(&a)?, <Arithmetic<F> as StatisticsOps<F>>::from_iter(&b)?).ci_mean(conf),
            }));
            let mut e = mean_expect(&ca, false);
            let e2 = mean_expect(&cb, false);
            for k in e2.applicable {
                if !e.applicable.contains(&k) {
                    e.applicable.push(k);
                }
            }
            e.class = format!("a:{} b:{}", ca.label(), cb.label());
            (out, e)
        }
        "quantile::ci" | "quantile::ci_sorted_unchecked" | "quantile::ci_max_size<8>" | "quantile::ci_max_size<1024>" => {
            let q = c.q.0;
            let n = a.len();
            let mut data = a.clone();
            if ep == "quantile::ci_sorted_unchecked" {
                if ca.nan {
                    // a sample with NaN cannot satisfy the 'already sorted' precondition
                    return (O::OkOther, Expect { applicable: vec![], panic_ok: None, class: "skipped: NaN in data declared sorted".into() });
                }
                data.sort_by(|x, y| x.partial_cmp(y).unwrap());
            }
            let out = of_float(call(|| match ep {
                "quantile::ci" => quantile::ci(conf, &data, q),
                "quantile::ci_sorted_unchecked" => quantile::ci_sorted_unchecked(conf, &data, q),
                "quantile::ci_max_size<8>" => quantile::ci_max_size::<F, Vec<F>, 8>(conf, &data, q),
                _ => quantile::ci_max_size::<F, Vec<F>, 1024>(conf, &data, q),
            }));
            if ep == "quantile::ci_sorted_unchecked" && !ca.nan {
                // the same slice in arrival order (the caller's promise of sortedness is not checked): whatever comes
                // back, it is not a panic and not an Ok interval with its bounds in the wrong order
                let raw = of_float(call(|| quantile::ci_sorted_unchecked(conf, &a, q)));
                let bad = match &raw {
                    O::Ok(_, lo, hi) => lo > hi || lo.is_nan() || hi.is_nan(),
                    O::Panic(_) => true,
                    _ => false,
                };
                if bad {
                    return (raw, Expect { applicable: vec![], panic_ok: None, class: "valid; data in arrival order".into() });
                }
            }
            let mut e = quantile_expect(n as u64, q);
            if ca.nan && n >= 2 && ep != "quantile::ci_sorted_unchecked" {
                e.panic_ok = Some("incomparable elements while sorting");
            }
            if ep == "quantile::ci_max_size<8>" && n > 8 {
                e.panic_ok = Some("capacity overflow in ci_max_size");
            }
            e.class = format!("{}; data {}", e.class, if ca.nan { "with-NaN" } else { "comparable" });
            (out, e)
        }
        _ => (O::Panic(format!("harness: unknown float entry point {ep}")), Expect { applicable: vec![], panic_ok: None, class: "?".into() }),
    }
}

fn quantile_expect(n: u64, q: f64) -> Expect {
    let mut a = vec![];
    let mut cls = vec![];
    if !(q > 0.0 && q < 1.0) {
        a.push(EK::InvalidQuantile);
        cls.push(if q.is_nan() { "q-NaN" } else { "q-outside" });
    }
    if n < 4 {
        a.push(EK::TooFewSamples);
        cls.push("n<4");
    }
    if q > 0.0 && q < 1.0 && n >= 1 {
        let x = q * n as f64;
        let ks = [x.round(), (x - 1e-9 * (n as f64).max(1.0)).round(), (x + 1e-9 * (n as f64).max(1.0)).round()];
        for k in ks {
            if k < 2.0 {
                if !a.contains(&EK::TooFewSuccesses) {
                    a.push(EK::TooFewSuccesses);
                    cls.push("k<2");
                }
            } else if n as f64 - k < 2.0 && !a.contains(&EK::TooFewFailures) {
                a.push(EK::TooFewFailures);
                cls.push("n-k<2");
            }
        }
        // when only the window (not round(q n) itself) is inadmissible the call may legitimately succeed
        let k0 = x.round();
        if k0 >= 2.0 && n as f64 - k0 >= 2.0 && n >= 4 {
            a.clear();
            cls.clear();
        }
    }
    Expect { applicable: a, panic_ok: None, class: if cls.is_empty() { "valid".into() } else { cls.join("+") } }
}

fn count_expect(n: u64, k: u64, min: u64) -> Expect {
    let mut a = vec![];
    let mut cls = vec![];
    if k > n {
        a.push(EK::InvalidSuccesses);
        cls.push("k>n");
    } else {
        if k < min {
            a.push(EK::TooFewSuccesses);
            cls.push(if k == 0 { "k=0" } else { "few-successes" });
        }
        if n - k < min {
            a.push(EK::TooFewFailures);
            cls.push(if n == k { "n-k=0" } else { "few-failures" });
        }
    }
    if n == 0 {
        cls.push("n=0");
    }
    Expect { applicable: a, panic_ok: None, class: if cls.is_empty() { "valid".into() } else { cls.join("+") } }
}

fn run_other(c: &Case) -> (O, Expect) {
    let conf = c.conf.get();
    let (n, k) = (c.n as usize, c.k as usize);
    let q = c.q.0;
    let ep = c.ep.as_str();
    match ep {
        "proportion::ci" => (of_float(call(|| proportion::ci(conf, n, k))), count_expect(c.n, c.k, 2)),
        "proportion::ci_wilson" => (of_float(call(|| proportion::ci_wilson(conf, n, k))), count_expect(c.n, c.k, 2)),
        "proportion::ci_z_normal" => (of_float(call(|| proportion::ci_z_normal(conf, n, k))), count_expect(c.n, c.k, 10)),
        "proportion::ci_wilson_ratio" => {
            let out = of_float(call(|| proportion::ci_wilson_ratio(conf, n, q)));
            let e = if q.is_nan() || q <= 0.0 || q > 1.0 {
                Expect { applicable: vec![EK::NonPositiveValue, EK::InvalidSuccesses, EK::TooFewSuccesses, EK::TooFewFailures], panic_ok: None, class: if q.is_nan() { "ratio-NaN".into() } else if q <= 0.0 { "ratio<=0".into() } else { "ratio>1".into() } }
            } else {
                let kk = (q * n as f64).round();
                let mut e = count_expect(c.n, kk as u64, 2);
                // at the rounding boundary either neighbouring count is a fair reading of the ratio
                let x = q * n as f64;
                if (x - x.floor() - 0.5).abs() < 1e-9 {
                    e.applicable.clear();
                }
                e
            };
            (out, e)
        }
        "proportion::ci_true" => {
            let data: Vec<bool> = (0..c.n.min(5000)).map(|i| i < c.k).collect();
            (of_float(call(|| proportion::ci_true(conf, &data))), count_expect(c.n.min(5000), c.k.min(c.n.min(5000)), 2))
        }
        "proportion::ci_if" => {
            let data: Vec<u64> = (0..c.n.min(5000)).collect();
            let kk = c.k;
            (of_float(call(|| proportion::ci_if(conf, &data, |&x| x < kk))), count_expect(c.n.min(5000), c.k.min(c.n.min(5000)), 2))
        }
        "proportion::is_significant" => {
            let r = guard(|| proportion::is_significant(n, k));
            (match r { Ok(_) => O::OkOther, Err(p) => O::Panic(p) }, Expect { applicable: vec![], panic_ok: None, class: if k > n { "k>n".into() } else { "valid".into() } })
        }
        "proportion::Stats::new+ci" => {
            let out = of_float(call(|| proportion::Stats::new(n, k).ci(conf)));
            let mut e = count_expect(c.n, c.k, 2);
            if k > n {
                e.panic_ok = Some("Stats::new with successes > population");
            }
            (out, e)
        }
        "proportion::Stats::is_significant" => {
            if k > n {
                return (O::OkOther, Expect { applicable: vec![], panic_ok: None, class: "skipped: Stats::new(k>n) panics by documentation".into() });
            }
            let r = guard(|| proportion::Stats::new(n, k).is_significant());
            (match r { Ok(_) => O::OkOther, Err(p) => O::Panic(p) }, Expect { applicable: vec![], panic_ok: None, class: "valid".into() })
        }
        "quantile::ci_indices" => (of_usize(call(|| quantile::ci_indices(conf, n, q))), quantile_expect(c.n, q)),
        "quantile::Stats::ci" => (of_usize(call(|| quantile::Stats::new(n).ci(conf, q))), quantile_expect(c.n, q)),
        "quantile::Stats::index" => {
            let out = match call(|| quantile::Stats::new(n).index(q)) {
                Out::Ok(i) => {
                    if n > 0 && i < n {
                        O::OkOther
                    } else {
                        O::Ok(0, f64::NAN, f64::NAN)
                    }
                }
                Out::Err(e) => O::Err(ek(&e), format!("{e:?}")),
                Out::Panic(p) => O::Panic(p),
            };
            let mut a = vec![];
            let mut cls = vec![];
            if n == 0 {
                a.push(EK::TooFewSamples);
                cls.push("n=0");
            }
            if !(q >= 0.0 && q <= 1.0) {
                a.push(EK::InvalidQuantile);
                cls.push("q-outside");
            }
            (out, Expect { applicable: a, panic_ok: None, class: if cls.is_empty() { "valid".into() } else { cls.join("+") } })
        }
        "Interval::relative_to" | "Interval+Interval" | "Interval-Interval" => {
            // intervals from (kind, bounds) in a / b: a = [kind_a, x, y], b = [kind_b, x, y]
            let mk = |v: &Vec<X>| -> Option<Interval<f64>> {
                if v.len() < 3 || v.iter().any(|x| x.0.is_nan()) {
                    return None;
                }
                let (x, y) = (v[1].0.min(v[2].0), v[1].0.max(v[2].0));
                Some(match (v[0].0.abs() as u64) % 3 {
                    0 => Interval::TwoSided(x, y),
                    1 => Interval::UpperOneSided(x),
                    _ => Interval::LowerOneSided(y),
                })
            };
            let (Some(ia), Some(ib)) = (mk(&c.a), mk(&c.b)) else {
                return (O::OkOther, Expect { applicable: vec![], panic_ok: None, class: "skipped".into() });
            };
            let (ka, kb) = (crate::model::interval_kind(&ia), crate::model::interval_kind(&ib));
            let r = guard(|| match ep {
                "Interval::relative_to" => ia.relative_to(&ib),
                "Interval+Interval" => ia + ib,
                _ => ia - ib,
            });
            let panic_ok = match ep {
                "Interval::relative_to" => {
                    let zero_ref = match ib {
                        Interval::TwoSided(x, y) => x == 0.0 || y == 0.0,
                        Interval::UpperOneSided(x) | Interval::LowerOneSided(x) => x == 0.0,
                    };
                    if zero_ref {
                        Some("relative_to a reference with a zero bound")
                    } else if (ka == 1 && kb == 1) || (ka == 2 && kb == 2) {
                        Some("relative_to with same-direction one-sided operands")
                    } else {
                        None
                    }
                }
                "Interval+Interval" => if (ka == 1 && kb == 2) || (ka == 2 && kb == 1) { Some("adding one-sided intervals of different directions") } else { None },
                _ => if (ka == 1 && kb == 1) || (ka == 2 && kb == 2) { Some("subtracting one-sided intervals of the same direction") } else { None },
            };
            let out = match r {
                Ok(_) => O::OkOther,
                Err(p) => O::Panic(p),
            };
            (out, Expect { applicable: vec![], panic_ok, class: if panic_ok.is_some() { "documented-panic".into() } else { "valid".into() } })
        }
        _ => (O::Panic(format!("harness: unknown entry point {ep}")), Expect { applicable: vec![], panic_ok: None, class: "?".into() }),
    }
}

fn is_float_ep(ep: &str) -> bool {
    ep.starts_with("Arithmetic") || ep.starts_with("<Arithmetic") || ep.starts_with("Geometric") || ep.starts_with("<Geometric") || ep.starts_with("Harmonic") || ep.starts_with("<Harmonic") || ep.starts_with("Paired") || ep.starts_with("Unpaired") || ep == "quantile::ci" || ep == "quantile::ci_sorted_unchecked" || ep.starts_with("quantile::ci_max_size")
}

/// The classifier (used by every driver, including the fuzz target).
pub fn classify_case(c: &Case) -> Result<(String, bool), crate::engine::Fail> {
    let (out, exp) = if is_float_ep(&c.ep) {
        if c.f32 {
            run_float::<f32>(c)
        } else {
            run_float::<f64>(c)
        }
    } else {
        run_other(c)
    };
    let ep = &c.ep;
    let kind = c.conf.kind_name();
    let class = exp.class.clone();
    let nontrivial = class != "valid" && !class.starts_with("skipped");
    let label = format!("{ep} | {class}");
    match out {
        O::Panic(p) => {
            if exp.panic_ok.is_some() {
                return Ok((format!("{label} | documented panic"), true));
            }
            Err(crate::engine::Fail { sig: format!("C11/{ep}/panic/{}", short_class(&class)), msg: format!("{ep} ({}, {kind}) on input class [{class}] panicked: {p}", if c.f32 { "f32" } else { "f64" }) })
        }
        O::Ok(_, lo, hi) => {
            if lo.is_nan() || hi.is_nan() {
                return Err(crate::engine::Fail { sig: format!("C11/{ep}/nan_interval/{}", short_class(&class)), msg: format!("{ep} ({}, {:?}) on input class [{class}] returned Ok with bounds [{lo}, {hi}]", if c.f32 { "f32" } else { "f64" }, c.conf) });
            }
            if lo > hi {
                return Err(crate::engine::Fail { sig: format!("C11/{ep}/inverted_interval/{}", short_class(&class)), msg: format!("{ep} on input class [{class}] returned Ok with lower bound {lo} above upper bound {hi}") });
            }
            if !exp.applicable.is_empty() {
                return Err(crate::engine::Fail { sig: format!("C11/{ep}/accepts_invalid/{}", short_class(&class)), msg: format!("{ep} ({:?}) on input class [{class}] returned Ok([{lo}, {hi}]); documented: one of {:?}", c.conf, exp.applicable) });
            }
            Ok((format!("{label} | ok"), nontrivial))
        }
        O::OkOther => {
            if !exp.applicable.is_empty() {
                return Err(crate::engine::Fail { sig: format!("C11/{ep}/accepts_invalid/{}", short_class(&class)), msg: format!("{ep} on input class [{class}] returned Ok; documented: one of {:?}", exp.applicable) });
            }
            Ok((format!("{label} | ok"), nontrivial))
        }
        O::Err(k, text) => {
            if !exp.applicable.is_empty() && !exp.applicable.contains(&k) {
                return Err(crate::engine::Fail { sig: format!("C11/{ep}/wrong_error/{}", short_class(&class)), msg: format!("{ep} on input class [{class}] returned Err({text}); documented for this class: one of {:?}", exp.applicable) });
            }
            // the numbers carried by the error describe the offending input
            let inner = text.split_once('(').map(|(_, r)| r.trim_end_matches(')').to_string()).unwrap_or_default();
            let fields: Vec<String> = inner.split(',').map(|f| f.trim().to_string()).collect();
            let ok = match k {
                EK::TooFewSamples => {
                    // the size of (one of) the sample(s) given, or the population of a quantile request
                    let got = fields.first().and_then(|f| f.parse::<u64>().ok());
                    let m = c.a.len().min(c.b.len()) as u64;
                    got.map(|g| g == c.a.len() as u64 || g == c.b.len() as u64 || g == c.n || (!c.b.is_empty() && g == m)).unwrap_or(false)
                }
                EK::InvalidQuantile => {
                    let got = fields.first().and_then(|f| f.parse::<f64>().ok());
                    got.map(|g| g.to_bits() == c.q.0.to_bits() || (g.is_nan() && c.q.0.is_nan()) || (g == 0.0 && c.q.0 == 0.0)).unwrap_or(false)
                }
                EK::DifferentSampleSizes => {
                    let got: Vec<u64> = fields.iter().filter_map(|f| f.parse::<u64>().ok()).collect();
                    got == vec![c.a.len() as u64, c.b.len() as u64]
                }
                _ => true,
            };
            if !ok {
                return Err(crate::engine::Fail { sig: format!("C11/{ep}/error_payload/{k:?}"), msg: format!("{ep} on input class [{class}] (sample sizes {} / {}, n = {}, q = {:?}) returned Err({text}): the payload does not describe the input", c.a.len(), c.b.len(), c.n, c.q.0) });
            }
            Ok((format!("{label} | err {k:?}"), nontrivial))
        }
    }
}
fn short_class(c: &str) -> String {
    // primary class only, so that one root cause maps to a handful of signatures
    let c = c.split(|ch| ch == '+' || ch == ';' || ch == ' ').next().unwrap_or(c);
    c.chars().map(|ch| if ch.is_ascii_alphanumeric() || ch == '+' || ch == '<' || ch == '>' || ch == '=' || ch == '-' { ch } else { '_' }).take(60).collect()
}

pub fn case(c: &Case, obs: &mut Obs) -> PResult {
    obs.eval();
    let (label, nontrivial) = classify_case(c)?;
    obs.class(&label);
    if nontrivial {
        obs.nontrivial(&(&c.ep, c.f32, c.a.iter().map(|x| x.0.to_bits()).collect::<Vec<_>>(), c.b.iter().map(|x| x.0.to_bits()).collect::<Vec<_>>(), c.n, c.k, c.q.0.to_bits(), c.conf.kind, c.conf.l().to_bits()));
        let key = label.split(" | ").take(2).collect::<Vec<_>>().join(" | ");
        if obs.wants_sample(&key) && obs.samples.len() < 60 {
            obs.sample(&key, || json!({"entry_point": c.ep, "type": if c.f32 { "f32" } else { "f64" }, "a": c.a, "b": c.b, "n": c.n, "k": c.k, "q": c.q, "conf": c.conf, "outcome": label}));
        }
    }
    Ok(())
}

// generators ------------------------------------------------------------------------------------------

pub fn special_values(f32_: bool) -> Vec<f64> {
    if f32_ {
        vec![f64::NAN, -f64::NAN, f64::INFINITY, f64::NEG_INFINITY, 0.0, -0.0, -1.5, 1e30, 1e-30, -1e30, f32::from_bits(1) as f64, f32::MAX as f64, f32::MIN_POSITIVE as f64]
    } else {
        vec![f64::NAN, -f64::NAN, f64::INFINITY, f64::NEG_INFINITY, 0.0, -0.0, -1.5, 1e200, 1e-200, -1e200, 5e-324, f64::MAX, f64::MIN_POSITIVE]
    }
}
const VALID: [f64; 9] = [3.5, 0.1, 12.25, 7.0, 1.1, 5.75, 2.0, 9.125, 0.5];

fn data_value(f32_: bool) -> impl Strategy<Value = f64> {
    prop_oneof![
        6 => (0usize..VALID.len()).prop_map(|i| VALID[i]),
        2 => (1u32..4000).prop_map(|m| m as f64 / 64.0),
        3 => (0usize..12).prop_map(move |i| special_values(f32_)[i]),
        1 => any::<u64>().prop_map(move |b| if f32_ { f32::from_bits(b as u32) as f64 } else { f64::from_bits(b) }),
    ]
}
fn data_vec(f32_: bool) -> impl Strategy<Value = Vec<f64>> {
    prop_oneof![
        3 => prop::collection::vec(data_value(f32_), 0..=3),
        5 => prop::collection::vec(data_value(f32_), 4..=12),
        1 => prop::collection::vec(data_value(f32_), 12..=40),
        1 => (0usize..9, 2usize..8).prop_map(|(i, n)| vec![[0.1, 1.1, 3.3, 123.456, 0.7, 1e-3, 2.5, 1e10, 7.77][i]; n]),
    ]
}
pub fn strategy() -> impl Strategy<Value = Case> {
    (0usize..EPS.len(), any::<bool>()).prop_flat_map(|(e, f32_)| {
        let nk = prop_oneof![
            3 => (0u64..40, 0u64..45),
            2 => (0u64..2000, 0u64..2000),
            1 => (any::<u64>(), any::<u64>()),
        ];
        let q = prop_oneof![
            4 => (0u32..=1000).prop_map(|i| i as f64 / 1000.0),
            2 => prop::sample::select(vec![0.0, 1.0, -0.1, 1.5, f64::NAN, f64::INFINITY, f64::NEG_INFINITY, -0.0, 0.5, 1e-300, 0.999999999]),
            1 => any::<u64>().prop_map(f64::from_bits),
        ];
        (data_vec(f32_), data_vec(f32_), nk, q, crate::gen::conf(), any::<bool>()).prop_map(move |(a, b, (n, k), q, conf, same_len)| {
            let mut b = b;
            if same_len {
                b.resize(a.len(), 2.5);
            }
            let cast = |v: Vec<f64>| -> Vec<X> { v.into_iter().map(|x| X(if f32_ { (x as f32) as f64 } else { x })).collect() };
            let ep = EPS[e];
            // data-driven proportion front-ends build O(n) data: keep n small there
            let n = if ep == "proportion::ci_true" || ep == "proportion::ci_if" { n % 3000 } else { n };
            Case { ep: ep.to_string(), f32: f32_, a: cast(a), b: cast(b), n, k, q: X(q), conf }
        })
    })
}

/// enumerated sweep: every entry point x every invalid / degenerate class x position x kind x level
pub fn enumerate() -> Vec<Case> {
    let mut out = vec![];
    let levels = [0.001, 0.5, 0.95, 0.9999];
    let mut confs = vec![];
    for k in 0u8..3 {
        for l in levels {
            confs.push(Conf::new(k, l));
        }
    }
    for f32_ in [false, true] {
        // data variants
        let mut datas: Vec<Vec<f64>> = vec![vec![], vec![2.5], vec![2.5, 2.5], vec![1.5, 2.5]];
        for c in [0.1, 1.1, 3.3, 123.456] {
            for n in [2usize, 3, 7] {
                datas.push(vec![c; n]);
            }
        }
        let base = vec![3.5, 0.25, 12.25, 7.0, 1.125];
        for v in special_values(f32_) {
            for pos in [0usize, 2, 4] {
                let mut d = base.clone();
                d[pos] = v;
                datas.push(d);
            }
            datas.push(vec![v]);
            datas.push(vec![v, v]);
        }
        datas.push(base.clone());
        datas.push(vec![1e200, 2e200, 3e200]);
        datas.push(vec![1e-200, 2e-200, 3e-200]);
        // squares (and hence variances) in the subnormal range: 2^-512 … 2^-536 (f32: 2^-64 … 2^-74)
        for e in if f32_ { vec![-62, -64, -68, -73] } else { vec![-510, -512, -520, -530, -536] } {
            let s = crate::fl::pow2(e);
            datas.push(vec![s, 2.0 * s, 3.0 * s]);
            datas.push(vec![6.0 * s, 5.0 * s, 7.0 * s, 6.5 * s]);
        }
        datas.push((0..12).map(|i| i as f64 + 0.5).collect());
        let cast = |v: &Vec<f64>| -> Vec<X> { v.iter().map(|&x| X(if f32_ { (x as f32) as f64 } else { x })).collect() };
        for ep in EPS.iter().filter(|e| is_float_ep(e)) {
            let two = ep.starts_with("Paired") || ep.starts_with("Unpaired");
            for (di, d) in datas.iter().enumerate() {
                for (ci, conf) in confs.iter().enumerate() {
                    if (di + ci) % 2 == 1 && !d.iter().any(|x| !x.is_finite()) && d.len() > 2 {
                        continue;
                    }
                    let qs: Vec<f64> = if ep.starts_with("quantile") { vec![0.5, 0.0, 1.0, 1.5, f64::NAN, -0.1] } else { vec![0.5] };
                    for q in qs {
                        if two {
                            // b: valid of the same length, valid of another length, or the same special data
                            let same: Vec<f64> = (0..d.len()).map(|i| 1.0 + i as f64 * 0.75).collect();
                            out.push(Case { ep: ep.to_string(), f32: f32_, a: cast(d), b: cast(&same), n: 0, k: 0, q: X(q), conf: *conf });
                            out.push(Case { ep: ep.to_string(), f32: f32_, a: cast(&same), b: cast(d), n: 0, k: 0, q: X(q), conf: *conf });
                            if ci == 0 {
                                let longer: Vec<f64> = (0..d.len() + 2).map(|i| 1.0 + i as f64).collect();
                                out.push(Case { ep: ep.to_string(), f32: f32_, a: cast(d), b: cast(&longer), n: 0, k: 0, q: X(q), conf: *conf });
                                out.push(Case { ep: ep.to_string(), f32: f32_, a: cast(&longer), b: cast(d), n: 0, k: 0, q: X(q), conf: *conf });
                                out.push(Case { ep: ep.to_string(), f32: f32_, a: cast(d), b: cast(d), n: 0, k: 0, q: X(q), conf: *conf });
                            }
                        } else {
                            out.push(Case { ep: ep.to_string(), f32: f32_, a: cast(d), b: vec![], n: 0, k: 0, q: X(q), conf: *conf });
                        }
                    }
                }
            }
        }
    }
    // long, otherwise ordered data with one special value at every position (and all-special data):
    // an 'already sorted' or chunked fast path must not let a NaN through
    for f32_ in [false, true] {
        let cast = |v: &Vec<f64>| -> Vec<X> { v.iter().map(|&x| X(if f32_ { (x as f32) as f64 } else { x })).collect() };
        for ep in EPS.iter().filter(|e| is_float_ep(e) && !e.starts_with("Paired") && !e.starts_with("Unpaired") && **e != "quantile::ci_max_size<8>") {
            let sorting = *ep == "quantile::ci" || *ep == "quantile::ci_max_size<1024>";
            for n in [5usize, 33, 257, 300, 1000] {
                let patterns: Vec<Vec<f64>> = vec![(0..n).map(|i| 1.0 + i as f64).collect(), (0..n).map(|i| (n - i) as f64).collect(), vec![2.5; n]];
                for (pi, pat) in patterns.iter().enumerate() {
                    if !sorting && pi > 0 {
                        continue;
                    }
                    let specials: &[f64] = if sorting { &[f64::NAN] } else { &[f64::NAN, f64::INFINITY] };
                    for &sp in specials {
                        let step = if n <= 300 && sorting { 1 } else { 7 };
                        for pos in (0..n).step_by(step).chain([n - 1]) {
                            let mut d = pat.clone();
                            d[pos] = sp;
                            for kind in 0u8..3 {
                                if !sorting && kind != (pos % 3) as u8 {
                                    continue;
                                }
                                let qs: &[f64] = if sorting { &[0.5, 0.1] } else { &[0.5] };
                                for &q in qs {
                                    out.push(Case { ep: ep.to_string(), f32: f32_, a: cast(&d), b: vec![], n: 0, k: 0, q: X(q), conf: Conf::new(kind, 0.95) });
                                }
                            }
                        }
                        out.push(Case { ep: ep.to_string(), f32: f32_, a: cast(&vec![sp; n]), b: vec![], n: 0, k: 0, q: X(0.5), conf: Conf::new(0, 0.95) });
                    }
                }
            }
        }
    }
    // count / quantile entry points
    let nks: Vec<(u64, u64)> = {
        let mut v = vec![];
        for n in [0u64, 1, 2, 3, 4, 5, 9, 10, 19, 20, 21, 30, 31, 40, 100] {
            for k in [0u64, 1, 2, 5, 6, 9, 10, 11] {
                v.push((n, k));
                v.push((n, n.saturating_sub(k)));
                v.push((n, n + k));
            }
        }
        v.push((31, 40));
        // counts beyond 2^53, where usize -> f64 conversion rounds: the domain rules are integer rules
        for base in [(1u64 << 53), (1u64 << 53) + 2, (1u64 << 53) + 3, (1u64 << 60) + 1024, (1u64 << 62) + 513, u64::MAX - 3] {
            for d in [0u64, 1, 2, 3] {
                v.push((base, base - d));
                v.push((base, d));
            }
        }
        v.push((u64::MAX, 5));
        v.push((5, u64::MAX));
        v
    };
    let qs = [0.5, 0.0, 1.0, -0.1, 1.5, f64::NAN, f64::INFINITY, 0.01, 0.99, 0.29];
    for ep in EPS.iter().filter(|e| !is_float_ep(e) && !e.starts_with("Interval")) {
        for &(n, k) in &nks {
            for conf in &confs {
                if ep.starts_with("quantile") || *ep == "proportion::ci_wilson_ratio" {
                    for q in qs {
                        out.push(Case { ep: ep.to_string(), f32: false, a: vec![], b: vec![], n, k, q: X(q), conf: *conf });
                    }
                } else {
                    out.push(Case { ep: ep.to_string(), f32: false, a: vec![], b: vec![], n, k, q: X(0.5), conf: *conf });
                }
            }
        }
    }
    // interval operations with documented panics
    let vals = [-2.0, 0.0, 1.0, 3.0];
    for ep in ["Interval::relative_to", "Interval+Interval", "Interval-Interval"] {
        for ka in 0..3 {
            for kb in 0..3 {
                for &x in &vals {
                    for &y in &vals {
                        out.push(Case { ep: ep.to_string(), f32: false, a: vec![X(ka as f64), X(x), X(y)], b: vec![X(kb as f64), X(y), X(x + 1.0)], n: 0, k: 0, q: X(0.5), conf: Conf::new(0, 0.9) });
                    }
                }
            }
        }
    }
    out
}

pub fn run(run: &mut Run) {
    run.technique = "enumeration of (entry point x invalid/degenerate input class x position x kind x level) + proptest random search with shrinking + (thorough) coverage-guided libFuzzer campaign; oracle = outcome classifier (documented error set per class, documented-panic whitelist, no NaN / inverted Ok), overflow checks on".into();
    run.rule = "36 public entry points x input classes {empty, singleton, two equal, constant 0.1/1.1/3.3/123.456, NaN / +inf / -inf / 0 / -0 / negative / 1e±200 (1e±30 f32) / subnormal / MAX at first, middle, last position of otherwise valid data, NaN (and inf) at every position of ordered / reversed / constant data of 5..1000 values, k > n, k or n-k in {0,1,..}, n = 0, q in {<=0, >=1, NaN, inf}, mismatched lengths, over capacity} x 3 kinds x levels {0.001, 0.5, 0.95, 0.9999}, f32 and f64; non-trivial = a case whose input class is not 'valid'; distinct = (entry point, full input)".into();
    let cases = enumerate();
    let cases_ref = &cases;
    let shards = 64;
    run.par(shards, |s, obs| {
        for (i, c) in cases_ref.iter().enumerate() {
            if i % shards == s {
                crate::engine::case_on(obs, "enumerated", c, case);
            }
        }
    });
    let (n, sh) = match run.tier {
        crate::engine::Tier::Quick => (300_000u32, 32usize),
        crate::engine::Tier::Thorough => (15_000_000, 256),
    };
    let seed = run.seed_for("random", 0);
    run.par(sh, |s, obs| {
        crate::engine::prop_on(obs, "random", n / sh as u32, crate::engine::mix(seed, "shard", s as u64), strategy(), case);
    });
    // class coverage: every float entry point must have met the main invalid classes
    for ep in EPS.iter() {
        let seen = |needle: &str| run.obs.classes.keys().any(|k| k.starts_with(&format!("{ep} | ")) && k.contains(needle));
        let needs: Vec<&str> = if ep.contains("Arithmetic") || ep.contains("Geometric") || ep.contains("Harmonic") {
            vec!["empty", "singleton", "nan", "inf", "constant", "extreme-magnitude", "valid"]
        } else if ep.starts_with("Paired") {
            vec!["empty", "nan", "valid"]
        } else if ep.starts_with("Unpaired") {
            vec!["a:empty", "b:singleton", "nan", "valid"]
        } else if ep.starts_with("quantile::ci_") && !ep.contains("indices") || *ep == "quantile::ci" {
            vec!["q-outside", "n<4", "valid"]
        } else if ep.starts_with("proportion::ci") {
            vec!["valid"]
        } else {
            vec![]
        };
        for nd in needs {
            if !seen(nd) {
                run.infra_errors.push(format!("generator regression: entry point {ep} never met class '{nd}'"));
            }
        }
    }
    run.assumptions.push("where several invalid classes apply any of the applicable documented errors is accepted; for degenerate-but-valid input (constant data, extreme magnitudes) any Ok that is well-formed or any Err is accepted, never a panic or a NaN / inverted Ok".into());
    run.assumptions.push("documented panics are accepted only for the inputs they are documented for: NaN data in sorting quantile entry points, more elements than CAP in ci_max_size, Stats::new(k > n), relative_to with a zero or same-direction reference, + / - of incompatible one-sided intervals".into());
    run.assumptions.push("the harness is built with overflow-checks = true and debug-assertions = false, and stats-ci is compiled under that profile".into());
}

pub fn replay(sub: &str, v: &Value, obs: &mut Obs) -> Option<PResult> {
    Some(match sub {
        "enumerated" | "random" | "fuzz" => case(&de(v), obs),
        _ => return None,
    })
}
