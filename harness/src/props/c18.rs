//! C18 — Confidence values are valid by construction and obey their algebraic laws.

use crate::engine::{guard, Obs, PResult, Run};
use crate::fl::{next_down, next_up, X};
use crate::props::de;
use proptest::prelude::*;
use serde::{Deserialize, Serialize};
use serde_json::{json, Value};
use stats_ci::error::CIError;
use stats_ci::Confidence;
use std::cmp::Ordering;

#[derive(Clone, Debug, Serialize, Deserialize)]
pub struct LevelCase {
    pub x: X,
    /// also run the f32 conversion on `x as f32`
    pub f32: bool,
}
#[derive(Clone, Debug, Serialize, Deserialize)]
pub struct PairCase {
    pub k1: u8,
    pub l1: X,
    pub k2: u8,
    pub l2: X,
}

fn level_class(x: f64) -> &'static str {
    if x.is_nan() {
        "nan"
    } else if x.is_infinite() {
        "inf"
    } else if x <= 0.0 {
        if x == 0.0 {
            "zero"
        } else {
            "negative"
        }
    } else if x >= 1.0 {
        if x == 1.0 {
            "one"
        } else {
            "above-one"
        }
    } else if x < 1e-300 {
        "valid-tiny"
    } else if x > 0.9999999999999 {
        "valid-near-one"
    } else {
        "valid"
    }
}

fn ctor(kind: u8) -> (fn(f64) -> Confidence, &'static str) {
    match kind {
        0 => (Confidence::new_two_sided, "new_two_sided"),
        1 => (Confidence::new_upper, "new_upper"),
        2 => (Confidence::new_lower, "new_lower"),
        _ => (Confidence::new, "new"),
    }
}

fn check_value(c: &Confidence, kind: u8, x: f64, obs: &mut Obs) -> PResult {
    obs.evals(8);
    ensure!(c.level().to_bits() == x.to_bits(), "C18/level", "level() = {:e}, constructed with {x:e}", c.level());
    ensure!(c.percent() == 100.0 * x || (c.percent() - 100.0 * x).abs() <= 1e-13 * (100.0 * x), "C18/percent", "percent() = {}, level {x}", c.percent());
    let want_kind = ["two-sided", "upper one-sided", "lower one-sided"][kind as usize];
    ensure!(c.kind() == want_kind, "C18/kind", "kind() = {:?}, expected {want_kind:?}", c.kind());
    let preds = (c.is_two_sided(), c.is_upper(), c.is_lower(), c.is_one_sided());
    ensure!(preds == (kind == 0, kind == 1, kind == 2, kind != 0), "C18/predicates", "{c:?}: (two, upper, lower, one_sided) = {preds:?}");
    let f = c.flipped();
    let fk = [0u8, 2, 1][kind as usize];
    let fpreds = (f.is_two_sided(), f.is_upper(), f.is_lower());
    ensure!(fpreds == (fk == 0, fk == 1, fk == 2), "C18/flipped_kind", "{c:?}.flipped() = {f:?}");
    ensure!(f.level().to_bits() == x.to_bits(), "C18/flipped_level", "{c:?}.flipped() = {f:?} changes the level");
    ensure!(f.flipped() == *c, "C18/flipped_involution", "{c:?}.flipped().flipped() = {:?}", f.flipped());
    if kind == 0 {
        ensure!(f == *c, "C18/flipped_two_sided_fixed", "two-sided {c:?} flipped is {f:?}");
    } else {
        ensure!(f != *c, "C18/flipped_one_sided_changes", "one-sided {c:?} flipped is itself");
    }
    ensure!(*c == c.clone(), "C18/eq_reflexive", "{c:?} != its copy");
    Ok(())
}

pub fn level_case(c: &LevelCase, obs: &mut Obs) -> PResult {
    let x = c.x.0;
    let valid = x > 0.0 && x < 1.0;
    let cls = level_class(x);
    obs.class(&format!("level/{cls}"));
    obs.nontrivial(&(x.to_bits(), c.f32));
    if obs.wants_sample(&format!("level/{cls}")) {
        obs.sample(&format!("level/{cls}"), || json!({"x": c.x, "valid": valid}));
    }
    for k in 0u8..4 {
        obs.eval();
        let (f, name) = ctor(k);
        let r = guard(|| f(x));
        match r {
            Ok(conf) => {
                ensure!(valid, format!("C18/{name}/accepts_invalid"), "{name}({x:e}) returned {conf:?} for a level outside (0,1)");
                check_value(&conf, if k == 3 { 0 } else { k }, x, obs)?;
            }
            Err(p) => {
                ensure!(!valid, format!("C18/{name}/rejects_valid"), "{name}({x:e}) panicked ({p}) for a level inside (0,1)");
            }
        }
    }
    obs.eval();
    let r = guard(|| Confidence::try_from(x));
    match r {
        Err(p) => return crate::engine::fail("C18/try_from_f64/panic", format!("try_from({x:e}) panicked: {p}")),
        Ok(Ok(conf)) => {
            ensure!(valid, "C18/try_from_f64/accepts_invalid", "try_from({x:e}) = Ok({conf:?})");
            ensure!(conf == Confidence::new_two_sided(x), "C18/try_from_f64/value", "try_from({x:e}) = {conf:?}, expected two-sided");
            check_value(&conf, 0, x, obs)?;
        }
        Ok(Err(CIError::InvalidConfidenceLevel(p))) => {
            ensure!(!valid, "C18/try_from_f64/rejects_valid", "try_from({x:e}) = Err(InvalidConfidenceLevel)");
            ensure!(p.to_bits() == x.to_bits() || (p.is_nan() && x.is_nan()), "C18/try_from_f64/payload", "InvalidConfidenceLevel({p:e}) for input {x:e}");
        }
        Ok(Err(e)) => return crate::engine::fail("C18/try_from_f64/wrong_error", format!("try_from({x:e}) = Err({e:?})")),
    }
    if c.f32 {
        obs.eval();
        let x32 = x as f32;
        let valid32 = x32 > 0.0 && x32 < 1.0;
        obs.class(&format!("level32/{}", level_class(x32 as f64)));
        match guard(|| Confidence::try_from(x32)) {
            Err(p) => return crate::engine::fail("C18/try_from_f32/panic", format!("try_from({x32:e}f32) panicked: {p}")),
            Ok(Ok(conf)) => {
                ensure!(valid32, "C18/try_from_f32/accepts_invalid", "try_from({x32:e}f32) = Ok({conf:?})");
                ensure!(conf == Confidence::new_two_sided(x32 as f64), "C18/try_from_f32/value", "try_from({x32:e}f32) = {conf:?}");
            }
            Ok(Err(CIError::InvalidConfidenceLevel(p))) => {
                ensure!(!valid32, "C18/try_from_f32/rejects_valid", "try_from({x32:e}f32) = Err(InvalidConfidenceLevel)");
                ensure!(p.to_bits() == (x32 as f64).to_bits() || (p.is_nan() && x32.is_nan()), "C18/try_from_f32/payload", "InvalidConfidenceLevel({p:e}) for input {x32:e}");
            }
            Ok(Err(e)) => return crate::engine::fail("C18/try_from_f32/wrong_error", format!("try_from({x32:e}f32) = Err({e:?})")),
        }
    }
    Ok(())
}

pub fn pair_case(c: &PairCase, obs: &mut Obs) -> PResult {
    let a = ctor(c.k1).0(c.l1.0);
    let b = ctor(c.k2).0(c.l2.0);
    // constructor 3 is `new`, an alias of new_two_sided
    let same_kind = (c.k1 % 3) == (c.k2 % 3);
    obs.evals(5);
    obs.class(&format!("pair/{}", if same_kind { "same-kind" } else { "mixed-kind" }));
    obs.nontrivial(&(c.k1, c.l1.0.to_bits(), c.k2, c.l2.0.to_bits()));
    let got = a.partial_cmp(&b);
    let want: Option<Ordering> = if same_kind { c.l1.0.partial_cmp(&c.l2.0) } else { None };
    ensure!(got == want, "C18/partial_cmp", "partial_cmp({a:?}, {b:?}) = {got:?}, expected {want:?}");
    let eq = a == b;
    ensure!(eq == (same_kind && c.l1.0 == c.l2.0), "C18/eq", "({a:?} == {b:?}) = {eq}");
    let ne = a != b;
    ensure!(ne == !eq && (&a == &b) == eq && (&a != &b) == ne && a.eq(&b) == eq && a.ne(&b) == ne && (b == a) == eq && (b != a) == ne, "C18/eq_forms", "the forms of == / != disagree for {a:?}, {b:?}: == {eq}, != {ne}, refs {} {}, methods {} {}, reversed {} {}", &a == &b, &a != &b, a.eq(&b), a.ne(&b), b == a, b != a);
    ensure!(a.lt(&b) == (a < b) && a.le(&b) == (a <= b) && a.gt(&b) == (a > b) && a.ge(&b) == (a >= b) && (&a).partial_cmp(&&b) == got, "C18/cmp_forms", "the method and operator forms of the comparison disagree for {a:?}, {b:?}");
    ensure!((a < b) == (want == Some(Ordering::Less)) && (a > b) == (want == Some(Ordering::Greater)), "C18/lt_gt", "{a:?} vs {b:?}: < {} > {}", a < b, a > b);
    ensure!((a <= b) == matches!(want, Some(Ordering::Less | Ordering::Equal)) && (a >= b) == matches!(want, Some(Ordering::Greater | Ordering::Equal)), "C18/le_ge", "{a:?} vs {b:?}: <= {} >= {}", a <= b, a >= b);
    ensure!(b.partial_cmp(&a) == want.map(|o| o.reverse()), "C18/partial_cmp_antisymmetric", "partial_cmp({b:?}, {a:?}) = {:?}", b.partial_cmp(&a));
    Ok(())
}

fn any_level() -> impl Strategy<Value = f64> {
    let specials = vec![
        0.0,
        -0.0,
        1.0,
        next_up(0.0),
        next_down(1.0),
        next_up(1.0),
        next_down(0.0),
        5e-324,
        f64::MIN_POSITIVE,
        0.5,
        0.95,
        f64::NAN,
        -f64::NAN,
        f64::from_bits(0x7ff0_0000_0000_0001),
        f64::INFINITY,
        f64::NEG_INFINITY,
        -1.0,
        -0.5,
        2.0,
        1e300,
        -1e-300,
        0.99999997, // rounds to 1.0 in f32
        1.0000000001,
        1e-46, // rounds to 0 in f32
    ];
    prop_oneof![
        3 => prop::sample::select(specials),
        3 => any::<u64>().prop_map(f64::from_bits),
        3 => (1u64..(1u64 << 53)).prop_map(|m| m as f64 / (1u64 << 53) as f64),
        1 => (-60i32..=60).prop_map(|i| 1.0 + i as f64 * f64::EPSILON / 2.0),
        1 => (-10i32..=60).prop_map(|i| i as f64 * 5e-324),
    ]
}
fn valid_level() -> impl Strategy<Value = f64> {
    prop_oneof![
        3 => (1u64..(1u64 << 53)).prop_map(|m| m as f64 / (1u64 << 53) as f64),
        2 => prop::sample::select(vec![0.5, 0.9, 0.95, 0.99, 5e-324, 0.9999999999999999, 0.1, 0.25]),
    ]
}

pub fn run(run: &mut Run) {
    run.technique = "proptest random search with shrinking over f64/f32 levels (special values, random bit patterns, neighbours of 0 and 1) and pairs; oracle = constructor outcome rule and algebraic laws".into();
    run.rule = "levels drawn from special values (0, ±0, 1, neighbours, subnormals, NaN payloads, ±inf, negatives, > 1), random bit patterns and uniform (0,1) x 4 panicking constructors + TryFrom<f64>/<f32>; pairs of valid confidences of all 4x4 constructor combinations for the ordering laws; non-trivial: every case; distinct = bit pattern(s)".into();
    let n = run.tier.pick(100_000, 4_000_000);
    run.prop("level", n, (any_level(), any::<bool>()).prop_map(|(x, f32)| LevelCase { x: X(x), f32 }), level_case);
    run.prop("pair", n, (0u8..4, valid_level(), 0u8..4, valid_level()).prop_map(|(k1, l1, k2, l2)| PairCase { k1, l1: X(l1), k2, l2: X(l2) }), pair_case);
    // levels a few ulps apart (ordering must follow the level itself, not a rounded image of it)
    let near = (0u8..4, valid_level(), 0u8..4, -3i32..=3, any::<bool>()).prop_map(|(k1, l1, k2, d, same)| {
        let mut l2 = l1;
        for _ in 0..d.unsigned_abs() {
            l2 = if d > 0 { next_up(l2) } else { next_down(l2) };
        }
        let l2 = if l2 > 0.0 && l2 < 1.0 { l2 } else { l1 };
        PairCase { k1, l1: X(l1), k2: if same { k1 } else { k2 }, l2: X(l2) }
    });
    run.prop("pair_adjacent", n, near, |c, obs| {
        obs.class(if c.l1.0 == c.l2.0 { "pair/adjacent/same-level" } else { "pair/adjacent/ulps-apart" });
        pair_case(c, obs)
    });
    // fixed facts
    run.case("default", &(), |_, obs| {
        obs.eval();
        let d = Confidence::default();
        ensure!(d == Confidence::new_two_sided(0.95) && d.is_two_sided() && d.level() == 0.95, "C18/default", "Default is {d:?}");
        Ok(())
    });
    for c in ["level/nan", "level/inf", "level/zero", "level/one", "level/negative", "level/above-one", "level/valid", "level/valid-tiny", "level/valid-near-one", "pair/same-kind", "pair/mixed-kind", "pair/adjacent/ulps-apart"] {
        run.require_class(c);
    }
    run.assumptions.push("enum variants built directly (Confidence::TwoSided(x)) bypass the constructors and are outside the property".into());
}

pub fn replay(sub: &str, v: &Value, obs: &mut Obs) -> Option<PResult> {
    Some(match sub {
        "level" => level_case(&de(v), obs),
        "pair" | "pair_adjacent" => pair_case(&de(v), obs),
        "default" => Ok(()),
        _ => return None,
    })
}
