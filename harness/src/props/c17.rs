//! C17 — proportion CIs are monotone in the data, mirror-symmetric and shrink with n.

use crate::engine::{Obs, PResult, Run};
use crate::model::{call, Conf, Out};
use crate::props::de;
use proptest::prelude::*;
use serde::{Deserialize, Serialize};
use serde_json::{json, Value};
use stats_ci::proportion;
use stats_ci::Interval;

pub const LEVELS: [f64; 15] = [1e-300, 1e-17, 1e-9, 0.001, 0.05, 0.3, 0.49, 0.5, 0.51, 0.7, 0.8, 0.9, 0.95, 0.99, 0.9999];

#[derive(Clone, Debug, Serialize, Deserialize)]
pub struct Case {
    pub n: u64,
    pub k: u64,
    pub kind: u8,
    /// false: Wilson (ci / ci_wilson), true: Wald (ci_z_normal)
    pub wald: bool,
}

fn get(wald: bool, n: u64, k: u64, conf: &Conf) -> Option<(f64, f64)> {
    let c = conf.get();
    let out = call(|| if wald { proportion::ci_z_normal(c, n as usize, k as usize) } else { proportion::ci(c, n as usize, k as usize) });
    match out {
        Out::Ok(Interval::TwoSided(a, b)) => Some((a, b)),
        _ => None,
    }
}
fn admissible(wald: bool, n: u64, k: u64) -> bool {
    if wald {
        k >= 10 && k + 10 <= n
    } else {
        k >= 2 && k + 2 <= n
    }
}

/// all relations for one (n, k, kind, method), over the level grid
pub fn case(c: &Case, obs: &mut Obs) -> PResult {
    let (n, k) = (c.n, c.k);
    let m = if c.wald { "wald" } else { "wilson" };
    let kn = ["two", "upper", "lower"][c.kind as usize];
    if !admissible(c.wald, n, k) {
        return Ok(());
    }
    let phat = k as f64 / n as f64;
    let mut prev: Option<(f64, f64, f64)> = None; // (level, lo, hi)
    for &l in LEVELS.iter() {
        // two-sided intervals at levels below 1e-3 are narrower than the spacing of f64 around k/n
        // (at L < 2^-53 the quantile argument (1+L)/2 is exactly 1/2): the strict clauses cannot be
        // represented there, so those levels are exercised one-sided only (DESIGN 7.3)
        // likewise the one-sided Wald formula at such levels puts its bound beyond the far end 0/1 and
        // the call is rejected with InvalidBounds (see C02: excluded there too); Wilson covers them
        if (c.kind == 0 || c.wald) && l < 1e-3 {
            continue;
        }
        let conf = Conf::new(c.kind, l);
        let Some((lo, hi)) = get(c.wald, n, k, &conf) else {
            return crate::engine::fail(format!("C17/{m}/rejects_admissible"), format!("{m} interval for admissible (n={n}, k={k}, {conf:?}) is not Ok"));
        };
        obs.evals(5);
        // [0,1] and midpoint (Wilson only for [0,1], see DESIGN C17)
        if !c.wald {
            ensure!(lo >= 0.0 && hi <= 1.0 && lo <= hi, format!("C17/{m}/unit_interval/{kn}"), "(n={n}, k={k}, {conf:?}) = [{lo:e}, {hi:e}] leaves [0,1]");
        }
        if c.kind == 0 {
            let mid = 0.5 * (lo + hi);
            let (a, b) = if c.wald { (phat, phat) } else { (phat.min(0.5), phat.max(0.5)) };
            ensure!(mid >= a - 1e-15 && mid <= b + 1e-15, format!("C17/{m}/midpoint"), "(n={n}, k={k}, {conf:?}) = [{lo:e}, {hi:e}]: midpoint {mid:e} not between k/n = {phat:e} and 1/2");
        }
        // monotone in k
        if admissible(c.wald, n, k + 1) {
            if let Some((lo2, hi2)) = get(c.wald, n, k + 1, &conf) {
                ensure!(lo2 >= lo - 1e-15 && hi2 >= hi - 1e-15, format!("C17/{m}/monotone_in_k/{kn}"), "(n={n}, {conf:?}): k={k} gives [{lo:e}, {hi:e}], k+1 gives [{lo2:e}, {hi2:e}]");
            }
        }
        // mirror: CI(n, n-k, flipped) = 1 - CI(n, k) with ends exchanged
        if let Some((mlo, mhi)) = get(c.wald, n, n - k, &conf.flipped()) {
            let (elo, ehi) = (1.0 - hi, 1.0 - lo);
            ensure!((mlo - elo).abs() <= 1e-14 && (mhi - ehi).abs() <= 1e-14, format!("C17/{m}/mirror/{kn}"), "(n={n}, k={k}, {conf:?}) = [{lo:e}, {hi:e}] but (n, n-k, flipped) = [{mlo:e}, {mhi:e}], expected [{elo:e}, {ehi:e}]");
            obs.headroom(&format!("mirror/{m}"), (mlo - elo).abs().max((mhi - ehi).abs()) / 1e-14, || json!({"n": n, "k": k, "conf": conf}));
        } else {
            return crate::engine::fail(format!("C17/{m}/mirror/{kn}"), format!("(n={n}, n-k={}, flipped {conf:?}) is rejected although (n, k) is admissible", n - k));
        }
        // shrink with n at the same proportion
        if l != 0.5 || c.kind == 0 {
            for mult in [2u64, 3, 10] {
                if let Some((lo2, hi2)) = get(c.wald, n * mult, k * mult, &conf) {
                    let ok = match c.kind {
                        0 => (hi2 - lo2) < (hi - lo),
                        1 => (lo2 - phat).abs() < (lo - phat).abs(),
                        _ => (hi2 - phat).abs() < (hi - phat).abs(),
                    };
                    ensure!(ok, format!("C17/{m}/shrinks_with_n/{kn}"), "(n={n}, k={k}, {conf:?}) = [{lo:e}, {hi:e}] but ({}x) = [{lo2:e}, {hi2:e}] is not strictly narrower", mult);
                }
            }
        }
        // a higher level is wider
        if let Some((pl, plo, phi)) = prev {
            let ok = match c.kind {
                0 => lo <= plo + 1e-15 && hi >= phi - 1e-15 && (hi - lo) > (phi - plo),
                1 => lo < plo,
                _ => hi > phi,
            };
            ensure!(ok, format!("C17/{m}/wider_with_level/{kn}"), "(n={n}, k={k}, kind {kn}): level {pl} gives [{plo:e}, {phi:e}], level {l} gives [{lo:e}, {hi:e}]");
        }
        prev = Some((l, lo, hi));
    }
    obs.class(&format!("{m}/{kn}"));
    if obs.wants_sample(&format!("{m}/{kn}")) {
        obs.sample(&format!("{m}/{kn}"), || json!({"n": n, "k": k, "kind": kn, "method": m, "levels": LEVELS}));
    }
    Ok(())
}

pub fn run(run: &mut Run) {
    run.technique = "bounded exhaustive enumeration of all admissible (n,k) up to a bound x 15 levels (1e-300 … 0.9999) x 3 kinds x {Wilson, Wald}; metamorphic relations between pairs of calls (no reference value)".into();
    run.rule = "every admissible (n,k), n <= N (quick 600, thorough 4000), for ci/ci_wilson and, on its own domain, ci_z_normal: monotone in k, mirror k <-> n-k with flipped kind, strictly narrower for (m n, m k), m in {2,3,10}, wider with the level, [0,1] and midpoint between k/n and 1/2 (Wilson); plus random large (n,k); every case is non-trivial and distinct by construction".into();
    let nmax: u64 = run.tier.pick(600, 4000);
    run.par((nmax + 1) as usize, |ni, obs| {
        let n = ni as u64;
        for k in 2..n.saturating_sub(1) {
            for kind in 0u8..3 {
                for wald in [false, true] {
                    if !admissible(wald, n, k) {
                        continue;
                    }
                    crate::engine::case_on(obs, "grid", &Case { n, k, kind, wald }, case);
                    obs.nontrivial_enum(1);
                }
            }
        }
    });
    run.exhaustive = true;
    run.exhaustive_parts.push(format!("all admissible (n,k) with n <= {nmax} x 15 levels (1e-300 … 0.9999) x 3 kinds x 2 methods"));
    let s = (20u64..(1u64 << 36), any::<u64>(), 0u8..3, any::<bool>()).prop_map(|(n, r, kind, wald)| {
        let lo = if wald { 10 } else { 2 };
        let span = n - 2 * lo;
        let k = lo + ((r as u128 * (span as u128 + 1)) >> 64) as u64;
        Case { n, k, kind, wald }
    });
    run.prop("random_big", run.tier.pick(20_000, 1_000_000), s, |c, obs| {
        obs.nontrivial(&(c.n, c.k, c.kind, c.wald));
        case(c, obs)
    });
    for c in ["wilson/two", "wilson/upper", "wilson/lower", "wald/two", "wald/upper", "wald/lower"] {
        run.require_class(c);
    }
    run.assumptions.push("the [0,1] clause is applied to the default (Wilson) interval only: the Wald formula leaves [0,1] by construction for extreme p and high levels (DESIGN C17)".into());
    run.assumptions.push("'narrower' for a one-sided interval means its finite bound is strictly closer to k/n (at level 1/2 the bound equals k/n and the clause is skipped)".into());
    crate::props::history::add(run, "C17", &[crate::props::history::WILSON, crate::props::history::WALD, crate::props::history::PSTATS], 3_000, 200_000);
}

pub fn replay(sub: &str, v: &Value, obs: &mut Obs) -> Option<PResult> {
    Some(match sub {
        "history" => crate::props::history::case(&de(v), obs),
        "grid" | "random_big" => case(&de(v), obs),
        _ => return None,
    })
}
