//! C13 — interval arithmetic is sound and tight for the denoted sets.

use crate::fl::X;
use proptest::prelude::*;
use crate::engine::{guard, Obs, PResult, Run};
use crate::model::{all_intervals, interval_kind, MI, NEG_INF, POS_INF};
use crate::props::de;
use serde::{Deserialize, Serialize};
use serde_json::{json, Value};
use stats_ci::Interval;
use std::fmt::Debug;
use std::ops::{Add, Div, Mul, Neg, Sub};

pub const B: i32 = 4; // box [-B, B]
const EXT: i32 = 12; // members of one-sided intervals are probed out to here

#[derive(Clone, Debug, Serialize, Deserialize)]
pub struct ScalarCase {
    /// "i32" (unit 1), "i64", "f64" (unit 0.5), "f32" (unit 0.25)
    pub ty: String,
    /// add sub mul div neg
    pub op: String,
    pub a: MI,
    pub k: i32,
}
#[derive(Clone, Debug, Serialize, Deserialize)]
pub struct PairCase {
    pub ty: String,
    /// add sub
    pub op: String,
    pub a: MI,
    pub b: MI,
}
#[derive(Clone, Debug, Serialize, Deserialize)]
pub struct RelCase {
    pub reference: MI,
    pub this: MI,
    /// values are index * unit
    pub unit_sixteenths: i32,
    /// additional power-of-two scale of all bounds (0 for the ordinary grids; -1070 puts them in the subnormal range)
    #[serde(default)]
    pub scale_exp: i32,
    /// write every zero bound as -0.0 (an interval that came out of a negation or a product carries it)
    #[serde(default)]
    pub neg_zero: bool,
}

trait Elem: Copy + PartialOrd + Debug + Add<Output = Self> + Sub<Output = Self> + Mul<Output = Self> + Div<Output = Self> + Neg<Output = Self> + num_traits::Num {
    fn of(i: i32) -> Self;
}
impl Elem for i32 {
    fn of(i: i32) -> i32 {
        i
    }
}
impl Elem for i64 {
    fn of(i: i32) -> i64 {
        i as i64 * 1_000_000_007
    }
}
impl Elem for f64 {
    fn of(i: i32) -> f64 {
        i as f64 * 0.5
    }
}
impl Elem for f32 {
    fn of(i: i32) -> f32 {
        i as f32 * 0.25
    }
}

fn build<T: Elem>(m: &MI) -> Interval<T> {
    match m.kind {
        0 => Interval::TwoSided(T::of(m.a), T::of(m.b)),
        1 => Interval::UpperOneSided(T::of(m.a)),
        _ => Interval::LowerOneSided(T::of(m.b)),
    }
}
fn members(m: &MI) -> impl Iterator<Item = i32> {
    let lo = if m.lo() == NEG_INF { -EXT } else { m.lo() };
    let hi = if m.hi() == POS_INF { EXT } else { m.hi() };
    lo..=hi
}
fn sign_name(k: i32) -> &'static str {
    if k > 0 {
        "pos"
    } else if k < 0 {
        "neg"
    } else {
        "zero"
    }
}
fn well_formed<T: PartialOrd + Debug>(r: &Interval<T>) -> bool {
    match r {
        Interval::TwoSided(a, b) => a <= b,
        _ => true,
    }
}

fn scalar_generic<T: Elem>(c: &ScalarCase, obs: &mut Obs) -> PResult {
    let a: Interval<T> = build(&c.a);
    let k = T::of(c.k);
    // for i64 the scalar of `mul`/`div` is a small plain integer (avoids overflow, which is outside the property)
    let k_small: T = {
        let mut acc = T::zero();
        let one = T::one();
        for _ in 0..c.k.abs() {
            acc = acc + one;
        }
        if c.k < 0 {
            -acc
        } else {
            acc
        }
    };
    let ks = if c.ty == "i64" && (c.op == "mul" || c.op == "div") { k_small } else { k };
    let f = |x: T| -> T {
        match c.op.as_str() {
            "add" => x + k,
            "sub" => x - k,
            "mul" => x * ks,
            "div" => x / ks,
            _ => -x,
        }
    };
    // direction of the map: +1 increasing, -1 decreasing, 0 constant
    let dir = match c.op.as_str() {
        "add" | "sub" => 1,
        "mul" | "div" => c.k.signum(),
        _ => -1,
    };
    let sgn = if c.op == "neg" { "na" } else { sign_name(c.k) };
    let cls = format!("{}_scalar/{}/{}", c.op, c.a.kind_name(), sgn);
    let sig = format!("C13/{cls}");
    obs.eval();
    obs.class(&cls);
    obs.nontrivial(&(&c.ty, &c.op, c.a, c.k));
    let res = guard(|| match c.op.as_str() {
        "add" => a + k,
        "sub" => a - k,
        "mul" => a * ks,
        "div" => a / ks,
        _ => -a,
    });
    let r = match res {
        Ok(r) => r,
        Err(p) => return crate::engine::fail(sig, format!("{a:?} {} {ks:?} panicked: {p}", c.op)),
    };
    if obs.wants_sample(&cls) {
        obs.sample(&cls, || json!({"type": c.ty, "expr": format!("{a:?} {} {ks:?}", c.op), "result": format!("{r:?}")}));
    }
    // well-formedness
    ensure!(well_formed(&r), sig, "{a:?} {} {ks:?} = {r:?}: lower bound above upper bound", c.op);
    // soundness: image of every member is a member
    for xi in members(&c.a) {
        let x = T::of(xi);
        let y = f(x);
        ensure!(r.contains(&y), sig, "{a:?} {} {ks:?} = {r:?} does not contain the image {y:?} of member {x:?}", c.op);
    }
    if dir == 0 {
        // image is {0}: a one-sided operand has no tight one-sided answer; soundness only (DESIGN C13)
        if c.a.kind == 0 {
            ensure!(r == Interval::TwoSided(T::zero(), T::zero()), sig, "{a:?} * 0 = {r:?}, image is [0, 0]");
        }
        return Ok(());
    }
    // exact image
    let want: Interval<T> = match (c.a.kind, dir) {
        (0, 1) => Interval::TwoSided(f(T::of(c.a.a)), f(T::of(c.a.b))),
        (0, _) => Interval::TwoSided(f(T::of(c.a.b)), f(T::of(c.a.a))),
        (1, 1) => Interval::UpperOneSided(f(T::of(c.a.a))),
        (1, _) => Interval::LowerOneSided(f(T::of(c.a.a))),
        (_, 1) => Interval::LowerOneSided(f(T::of(c.a.b))),
        (_, _) => Interval::UpperOneSided(f(T::of(c.a.b))),
    };
    // unbounded on exactly the side the image is unbounded
    ensure!(
        interval_kind(&r) == interval_kind(&want),
        sig,
        "{a:?} {} {ks:?} = {r:?}: the image is {want:?} (wrong side unbounded / wrong kind)",
        c.op
    );
    // tightness: every finite bound is attained (= the image's bound)
    ensure!(r == want, sig, "{a:?} {} {ks:?} = {r:?}, image of the set is {want:?} (bound not attained)", c.op);
    Ok(())
}

pub fn scalar_case(c: &ScalarCase, obs: &mut Obs) -> PResult {
    match c.ty.as_str() {
        "i32" => scalar_generic::<i32>(c, obs),
        "i64" => scalar_generic::<i64>(c, obs),
        "f64" => scalar_generic::<f64>(c, obs),
        "f32" => scalar_generic::<f32>(c, obs),
        t => crate::engine::fail("INFRA/harness_panic", format!("unknown type {t}")),
    }
}

fn pair_generic<T: Elem>(c: &PairCase, obs: &mut Obs) -> PResult {
    let a: Interval<T> = build(&c.a);
    let b: Interval<T> = build(&c.b);
    let cls = format!("{}_interval/{}-{}", c.op, c.a.kind_name(), c.b.kind_name());
    let sig = format!("C13/{cls}");
    // exact image (hull); None = the whole line (documented panic, C11's business)
    let (alo, ahi, blo, bhi) = (c.a.lo(), c.a.hi(), c.b.lo(), c.b.hi());
    let (lo, hi): (Option<i32>, Option<i32>) = if c.op == "add" {
        (
            if alo == NEG_INF || blo == NEG_INF { None } else { Some(alo + blo) },
            if ahi == POS_INF || bhi == POS_INF { None } else { Some(ahi + bhi) },
        )
    } else {
        (
            if alo == NEG_INF || bhi == POS_INF { None } else { Some(alo - bhi) },
            if ahi == POS_INF || blo == NEG_INF { None } else { Some(ahi - blo) },
        )
    };
    if lo.is_none() && hi.is_none() {
        obs.exclude("interval op whose image is the whole line (documented panic; C11)");
        return Ok(());
    }
    obs.eval();
    obs.class(&cls);
    obs.nontrivial(&(&c.ty, &c.op, c.a, c.b));
    // bounds via the element type's own arithmetic (exact for these values)
    let op = |x: T, y: T| if c.op == "add" { x + y } else { x - y };
    let want: Interval<T> = match (lo, hi) {
        (Some(_), Some(_)) => {
            if c.op == "add" {
                Interval::TwoSided(op(T::of(alo), T::of(blo)), op(T::of(ahi), T::of(bhi)))
            } else {
                Interval::TwoSided(op(T::of(alo), T::of(bhi)), op(T::of(ahi), T::of(blo)))
            }
        }
        (Some(_), None) => Interval::UpperOneSided(if c.op == "add" { op(T::of(alo), T::of(blo)) } else { op(T::of(alo), T::of(bhi)) }),
        (None, Some(_)) => Interval::LowerOneSided(if c.op == "add" { op(T::of(ahi), T::of(bhi)) } else { op(T::of(ahi), T::of(blo)) }),
        _ => unreachable!(),
    };
    let res = guard(|| if c.op == "add" { a + b } else { a - b });
    let r = match res {
        Ok(r) => r,
        Err(p) => return crate::engine::fail(sig, format!("{a:?} {} {b:?} panicked although the image {want:?} is a proper interval: {p}", c.op)),
    };
    if obs.wants_sample(&cls) {
        obs.sample(&cls, || json!({"type": c.ty, "expr": format!("{a:?} {} {b:?}", c.op), "result": format!("{r:?}")}));
    }
    ensure!(well_formed(&r), sig, "{a:?} {} {b:?} = {r:?}: lower bound above upper bound", c.op);
    for xi in members(&c.a) {
        for yi in members(&c.b) {
            let v = op(T::of(xi), T::of(yi));
            ensure!(r.contains(&v), sig, "{a:?} {} {b:?} = {r:?} does not contain {v:?} = op({xi}u, {yi}u)", c.op);
        }
    }
    ensure!(interval_kind(&r) == interval_kind(&want), sig, "{a:?} {} {b:?} = {r:?}: the image is {want:?} (wrong side unbounded)", c.op);
    ensure!(r == want, sig, "{a:?} {} {b:?} = {r:?}, image is {want:?} (bound not attained)", c.op);
    Ok(())
}
pub fn pair_case(c: &PairCase, obs: &mut Obs) -> PResult {
    match c.ty.as_str() {
        "i32" => pair_generic::<i32>(c, obs),
        "i64" => pair_generic::<i64>(c, obs),
        "f64" => pair_generic::<f64>(c, obs),
        "f32" => pair_generic::<f32>(c, obs),
        t => crate::engine::fail("INFRA/harness_panic", format!("unknown type {t}")),
    }
}

/// relative_to: non-negative `this` (two-sided with low >= 0, or upper one-sided with bound >= 0)
/// against a strictly positive reference (two-sided with low > 0, or upper one-sided with bound > 0)
pub fn rel_case(c: &RelCase, obs: &mut Obs) -> PResult {
    let unit = c.unit_sixteenths as f64 / 16.0 * crate::fl::pow2(c.scale_exp);
    let val = |i: i32| if i == 0 && c.neg_zero { -0.0 } else { i as f64 * unit };
    let mk = |m: &MI| -> Interval<f64> {
        match m.kind {
            0 => Interval::TwoSided(val(m.a), val(m.b)),
            1 => Interval::UpperOneSided(val(m.a)),
            _ => Interval::LowerOneSided(val(m.b)),
        }
    };
    let reference = mk(&c.reference);
    let this = mk(&c.this);
    let cls = format!("relative_to/ref-{}/self-{}", c.reference.kind_name(), c.this.kind_name());
    let sig = format!("C13/{cls}");
    if c.reference.kind == 1 && c.this.kind == 1 {
        obs.exclude("relative_to with same-direction one-sided operands (documented panic; C11)");
        return Ok(());
    }
    obs.eval();
    obs.class(&cls);
    obs.nontrivial(&(c.reference, c.this, c.unit_sixteenths, c.scale_exp, c.neg_zero));
    let res = guard(|| this.relative_to(&reference));
    let r = match res {
        Ok(r) => r,
        Err(p) => return crate::engine::fail(sig, format!("{this:?}.relative_to({reference:?}) panicked: {p}")),
    };
    if obs.wants_sample(&cls) {
        obs.sample(&cls, || json!({"expr": format!("{this:?}.relative_to({reference:?})"), "result": format!("{r:?}")}));
    }
    ensure!(well_formed(&r), sig, "{this:?}.relative_to({reference:?}) = {r:?} is inverted");
    if c.reference == c.this {
        // the same interval as its own reference, passed as the very same object: nothing may depend on the address
        let same_object = guard(|| this.relative_to(&this));
        match same_object {
            Ok(s2) => ensure!(interval_kind(&s2) == interval_kind(&r) && format!("{s2:?}") == format!("{r:?}"), sig, "{this:?}.relative_to(&itself) = {s2:?} but relative to an equal copy = {r:?}"),
            Err(p) => return crate::engine::fail(sig, format!("{this:?}.relative_to(&itself) panicked: {p}")),
        }
        obs.class("relative_to/same-object");
    }
    let rel = |x: f64, rr: f64| (x - rr) / rr;
    // members on the grid, one-sided ones out to EXT
    let mem = |m: &MI| -> Vec<f64> {
        let lo = m.lo();
        let hi = if m.hi() == POS_INF { EXT } else { m.hi() };
        // (at the largest scale the members beyond the grid overflow: only finite members are probed)
        (lo..=hi).map(val).filter(|v| v.is_finite()).collect()
    };
    let slack = |v: f64| 4.0 * f64::EPSILON * v.abs().max(1.0);
    for &x in &mem(&c.this) {
        for &rr in &mem(&c.reference) {
            let v = rel(x, rr);
            let ok = match &r {
                Interval::TwoSided(l, h) => *l - slack(*l) <= v && v <= *h + slack(*h),
                Interval::UpperOneSided(l) => *l - slack(*l) <= v,
                Interval::LowerOneSided(h) => v <= *h + slack(*h),
            };
            ensure!(ok, sig, "{this:?}.relative_to({reference:?}) = {r:?} does not enclose ({x}-{rr})/{rr} = {v}");
        }
    }
    // each finite bound is attained at a pair of endpoints
    let ends = |m: &MI| -> Vec<f64> {
        let mut v = vec![];
        if m.lo() != NEG_INF {
            v.push(val(m.lo()));
        }
        if m.hi() != POS_INF {
            v.push(val(m.hi()));
        }
        v
    };
    let attained = |b: f64| ends(&c.this).iter().any(|&x| ends(&c.reference).iter().any(|&rr| (rel(x, rr) - b).abs() <= slack(b)));
    match &r {
        Interval::TwoSided(l, h) => {
            ensure!(attained(*l), sig, "{this:?}.relative_to({reference:?}) = {r:?}: lower bound is not attained by any members");
            ensure!(attained(*h), sig, "{this:?}.relative_to({reference:?}) = {r:?}: upper bound is not attained by any members");
        }
        Interval::UpperOneSided(l) => ensure!(attained(*l), sig, "{this:?}.relative_to({reference:?}) = {r:?}: bound is not attained"),
        Interval::LowerOneSided(h) => ensure!(attained(*h), sig, "{this:?}.relative_to({reference:?}) = {r:?}: bound is not attained"),
    }
    Ok(())
}

/// relative_to on generic (non-dyadic) bounds: every finite bound of the result is, within 2 ulp of its own
/// magnitude, the exact value of (x - r) / r for the endpoints that attain it (so the extremal members' own relative
/// change is enclosed up to rounding, however close x is to r)
#[derive(Clone, Debug, Serialize, Deserialize)]
pub struct RelRandom {
    pub f32: bool,
    /// 0 two-sided, 1 upper, 2 lower — of the reference and of self
    pub kr: u8,
    pub ks: u8,
    pub r1: X,
    pub r2: X,
    pub s1: X,
    pub s2: X,
}
fn exact_rel(x: f64, r: f64) -> f64 {
    use crate::exact::{ratio_to_f64, Dy};
    let num = Dy::from_f64(x).sub(&Dy::from_f64(r));
    let den = Dy::from_f64(r);
    ratio_to_f64(&num.num, &den.num, num.exp - den.exp)
}
pub fn rel_random_case(c: &RelRandom, obs: &mut Obs) -> PResult {
    fn go<F: crate::fl::Fl>(c: &RelRandom, obs: &mut Obs) -> PResult {
        let f = |x: X| F::from64(x.0);
        let mk = |k: u8, a: X, b: X| -> Interval<F> {
            let (a, b) = if a.0 <= b.0 { (a, b) } else { (b, a) };
            match k {
                0 => Interval::TwoSided(f(a), f(b)),
                1 => Interval::UpperOneSided(f(a)),
                _ => Interval::LowerOneSided(f(b)),
            }
        };
        let reference = mk(c.kr, c.r1, c.r2);
        let this = mk(c.ks, c.s1, c.s2);
        // documented panics: zero / same-direction references (C11); negative values are outside the clause
        let ends = |i: &Interval<F>| -> Vec<f64> {
            let (_, l, h) = crate::model::bounds(i);
            [l, h].into_iter().filter(|v| v.is_finite()).collect()
        };
        if ends(&reference).iter().any(|v| *v <= 0.0) || ends(&this).iter().any(|v| *v < 0.0) || (c.kr != 0 && c.kr == c.ks) || c.kr == 2 || c.ks == 2 {
            obs.exclude("relative_to outside the clause (non-positive reference, negative self, lower or same-direction one-sided operands)");
            return Ok(());
        }
        obs.eval();
        let sig = format!("C13/relative_to_random/{}", F::NAME);
        let r = match guard(|| this.relative_to(&reference)) {
            Ok(r) => r,
            Err(p) => return crate::engine::fail(sig, format!("{this:?}.relative_to({reference:?}) panicked: {p}")),
        };
        let (_, lo, hi) = crate::model::bounds(&r);
        ensure!(!(lo > hi) && !lo.is_nan() && !hi.is_nan(), sig, "{this:?}.relative_to({reference:?}) = {r:?} is not well-formed");
        let cands: Vec<f64> = ends(&this).iter().flat_map(|x| ends(&reference).into_iter().map(move |rr| exact_rel(*x, rr))).collect();
        let tol = |v: f64| 2.0 * F::U * 2.0 * v.abs() + if F::IS32 { 1e-44 } else { 1e-322 };
        for (name, b) in [("lower", lo), ("upper", hi)] {
            if !b.is_finite() {
                continue;
            }
            let best = cands.iter().map(|v| (b - v).abs() / tol(*v).max(f64::MIN_POSITIVE)).fold(f64::INFINITY, f64::min);
            ensure!(best <= 1.0, sig, "{this:?}.relative_to({reference:?}) = {r:?}: the {name} bound {b:e} is not within 2 ulp of the exact relative change of any pair of endpoints {cands:?}");
            obs.headroom(&format!("relative_to_random/{}", F::NAME), best, || json!({"this": format!("{this:?}"), "reference": format!("{reference:?}")}));
        }
        // soundness: the relative change of every pair of endpoints is enclosed, up to the same rounding
        for v in &cands {
            ensure!(lo - tol(lo).max(tol(*v)) <= *v && *v <= hi + tol(hi).max(tol(*v)), sig, "{this:?}.relative_to({reference:?}) = {r:?} does not enclose the relative change {v:e} of a pair of endpoints");
        }
        let close = cands.iter().any(|v| v.abs() < 0.01);
        obs.class(&format!("relative_to_random/{}/{}", F::NAME, if close { "self-close-to-reference" } else { "apart" }));
        obs.nontrivial(&(c.f32, c.kr, c.ks, c.r1.0.to_bits(), c.r2.0.to_bits(), c.s1.0.to_bits(), c.s2.0.to_bits()));
        Ok(())
    }
    if c.f32 {
        go::<f32>(c, obs)
    } else {
        go::<f64>(c, obs)
    }
}

/// Interval arithmetic on generic floats (mixed magnitudes, non-dyadic bounds): every finite bound of the result is
/// the correctly rounded image of the bounds that attain it, give or take one ulp outwards — sound for the extremal
/// members and tight. (On small integer boxes every formula that is right in exact arithmetic passes; here the order of
/// operations matters.)
#[derive(Clone, Debug, Serialize, Deserialize)]
pub struct ArithRandom {
    pub f32: bool,
    /// add sub (interval-interval), sadd ssub smul sdiv neg (scalar s)
    pub op: String,
    pub ka: u8,
    pub kb: u8,
    pub a: (X, X),
    pub b: (X, X),
    pub s: X,
}
pub fn arith_random_case(c: &ArithRandom, obs: &mut Obs) -> PResult {
    fn go<F: crate::fl::Fl>(c: &ArithRandom, obs: &mut Obs) -> PResult {
        let f = |x: X| F::from64(x.0);
        let mk = |k: u8, p: (X, X)| -> Interval<F> {
            let (lo, hi) = if p.0 .0 <= p.1 .0 { (p.0, p.1) } else { (p.1, p.0) };
            match k % 3 {
                0 => Interval::TwoSided(f(lo), f(hi)),
                1 => Interval::UpperOneSided(f(lo)),
                _ => Interval::LowerOneSided(f(hi)),
            }
        };
        let (ia, ib) = (mk(c.ka, c.a), mk(c.kb, c.b));
        let s = f(c.s);
        let (_, al, ah) = crate::model::bounds(&ia);
        let (_, bl, bh) = crate::model::bounds(&ib);
        // expected bounds in exact-then-rounded arithmetic of the element type (one operation each)
        let r = |v: f64| F::from64(v).to64();
        let (res, want): (Result<Interval<F>, String>, (f64, f64)) = match c.op.as_str() {
            "add" => {
                if c.ka % 3 != 0 && c.kb % 3 != 0 && c.ka % 3 != c.kb % 3 {
                    return Ok(()); // documented panic (C11)
                }
                (guard(|| ia + ib), (r(al + bl), r(ah + bh)))
            }
            "sub" => {
                if c.ka % 3 != 0 && c.kb % 3 != 0 && c.ka % 3 == c.kb % 3 {
                    return Ok(()); // documented panic (C11)
                }
                (guard(|| ia - ib), (r(al - bh), r(ah - bl)))
            }
            "sadd" => (guard(|| ia + s), (r(al + s.to64()), r(ah + s.to64()))),
            "ssub" => (guard(|| ia - s), (r(al - s.to64()), r(ah - s.to64()))),
            "smul" => {
                let (x, y) = (r(al * s.to64()), r(ah * s.to64()));
                if s.to64() == 0.0 {
                    return Ok(());
                }
                (guard(|| ia * s), if s.to64() > 0.0 { (x, y) } else { (y, x) })
            }
            "sdiv" => {
                if s.to64() == 0.0 {
                    return Ok(());
                }
                let (x, y) = (r(al / s.to64()), r(ah / s.to64()));
                (guard(|| ia / s), if s.to64() > 0.0 { (x, y) } else { (y, x) })
            }
            _ => (guard(|| -ia), (-ah, -al)),
        };
        obs.eval();
        let sig = format!("C13/arith_random/{}/{}", c.op, F::NAME);
        let got = match res {
            Ok(i) => i,
            Err(p) => return crate::engine::fail(sig, format!("{ia:?} {} {ib:?} / {s:?} panicked: {p}", c.op)),
        };
        let (_, gl, gh) = crate::model::bounds(&got);
        if want.0.is_nan() || want.1.is_nan() || want.0.is_infinite() && al.is_finite() && bl.is_finite() || want.1.is_infinite() && ah.is_finite() && bh.is_finite() {
            obs.exclude("arithmetic on generic floats: the exact image overflows or is undefined (inf - inf)");
            return Ok(());
        }
        let ulp = |v: f64| if F::IS32 { (crate::fl::next_up32(v.abs() as f32) as f64 - (v.abs() as f32) as f64).abs() } else { crate::fl::next_up(v.abs()) - v.abs() };
        for (name, g, w, outward_is_down) in [("lower", gl, want.0, true), ("upper", gh, want.1, false)] {
            if w.is_infinite() {
                ensure!(g == w, sig, "{ia:?} {} {ib:?} / {s:?} = {got:?}: the {name} side must be unbounded", c.op);
                continue;
            }
            // sound: not inside the exact-rounded bound; tight: at most one ulp outside it
            let inside = if outward_is_down { g > w } else { g < w };
            let far = (g - w).abs() > ulp(w) * 1.0000001;
            ensure!(!inside && !far, sig, "{ia:?} {} {ib:?} (scalar {s:?}) = {got:?}: the {name} bound {g:e} is not the rounded image {w:e} of the bounds that attain it ({})", c.op, if inside { "unsound: it excludes the image of the extremal members" } else { "not tight" });
        }
        obs.class(&format!("arith_random/{}", c.op));
        obs.nontrivial(&(c.f32, &c.op, c.ka % 3, c.kb % 3, c.a.0 .0.to_bits(), c.a.1 .0.to_bits(), c.b.0 .0.to_bits(), c.b.1 .0.to_bits(), c.s.0.to_bits()));
        Ok(())
    }
    if c.f32 {
        go::<f32>(c, obs)
    } else {
        go::<f64>(c, obs)
    }
}

/// unsigned element types: A + B and A - B where every member result is representable (no negation available,
/// so only the interval-interval operators and + - * / by a non-negative scalar are exercised)
#[derive(Clone, Debug, Serialize, Deserialize)]
pub struct UnsignedCase {
    /// u8 u32 usize
    pub ty: String,
    /// add sub (intervals), sadd ssub smul sdiv (scalar k)
    pub op: String,
    pub a: MI,
    pub b: MI,
    pub k: u32,
}
macro_rules! unsigned_impl {
    ($name:ident, $t:ty) => {
        fn $name(c: &UnsignedCase, obs: &mut Obs) -> PResult {
            let mk = |m: &MI| -> Interval<$t> {
                match m.kind {
                    0 => Interval::TwoSided(m.a as $t, m.b as $t),
                    1 => Interval::UpperOneSided(m.a as $t),
                    _ => Interval::LowerOneSided(m.b as $t),
                }
            };
            let (ia, ib) = (mk(&c.a), mk(&c.b));
            let k = c.k as $t;
            let cls = format!("unsigned/{}/{}-{}", c.op, c.a.kind_name(), c.b.kind_name());
            let sig = format!("C13/{cls}");
            // expected hull from the model in i64; skip when any member result is negative (unrepresentable)
            let (alo, ahi, blo, bhi) = (c.a.lo() as i64, c.a.hi() as i64, c.b.lo() as i64, c.b.hi() as i64);
            let (ninf, pinf) = (NEG_INF as i64, POS_INF as i64);
            let (lo, hi): (Option<i64>, Option<i64>) = match c.op.as_str() {
                "add" => (if alo == ninf || blo == ninf { None } else { Some(alo + blo) }, if ahi == pinf || bhi == pinf { None } else { Some(ahi + bhi) }),
                "sub" => (if alo == ninf || bhi == pinf { None } else { Some(alo - bhi) }, if ahi == pinf || blo == ninf { None } else { Some(ahi - blo) }),
                "sadd" => (if alo == ninf { None } else { Some(alo + c.k as i64) }, if ahi == pinf { None } else { Some(ahi + c.k as i64) }),
                "ssub" => (if alo == ninf { None } else { Some(alo - c.k as i64) }, if ahi == pinf { None } else { Some(ahi - c.k as i64) }),
                "smul" => (if alo == ninf { None } else { Some(alo * c.k as i64) }, if ahi == pinf { None } else { Some(ahi * c.k as i64) }),
                _ => (if alo == ninf { None } else { Some(alo / c.k as i64) }, if ahi == pinf { None } else { Some(ahi / c.k as i64) }),
            };
            // a lower one-sided interval of an unsigned type has members down to 0: the finite bounds decide representability
            if lo.is_none() && hi.is_none() {
                obs.exclude("interval op whose image is the whole line (documented panic; C11)");
                return Ok(());
            }
            if lo.map(|v| v < 0).unwrap_or(false) || hi.map(|v| v < 0).unwrap_or(false) || c.a.kind == 2 && c.op.ends_with("sub") || (c.op == "sub" && (c.b.kind == 1 || c.a.kind == 2)) {
                obs.exclude("unsigned result not representable (outside the property)");
                return Ok(());
            }
            obs.eval();
            obs.class(&cls);
            obs.nontrivial(&(&c.ty, &c.op, c.a, c.b, c.k));
            let want: Interval<$t> = match (lo, hi) {
                (Some(l), Some(h)) => Interval::TwoSided(l as $t, h as $t),
                (Some(l), None) => Interval::UpperOneSided(l as $t),
                (None, Some(h)) => Interval::LowerOneSided(h as $t),
                _ => unreachable!(),
            };
            let r = guard(|| match c.op.as_str() {
                "add" => ia + ib,
                "sub" => ia - ib,
                "sadd" => ia + k,
                "ssub" => ia - k,
                "smul" => ia * k,
                _ => ia / k,
            });
            match r {
                Ok(r) => {
                    ensure!(r == want, sig, "{ia:?} {} {} = {r:?}, the image of the set is {want:?} ({})", c.op, if c.op.starts_with('s') { format!("{k}") } else { format!("{ib:?}") }, c.ty);
                    Ok(())
                }
                Err(p) => crate::engine::fail(sig, format!("{ia:?} {} {} panicked although the result {want:?} is representable in {}: {p}", c.op, if c.op.starts_with('s') { format!("{k}") } else { format!("{ib:?}") }, c.ty)),
            }
        }
    };
}
unsigned_impl!(unsigned_u8, u8);
unsigned_impl!(unsigned_u32, u32);
unsigned_impl!(unsigned_usize, usize);
pub fn unsigned_case(c: &UnsignedCase, obs: &mut Obs) -> PResult {
    match c.ty.as_str() {
        "u8" => unsigned_u8(c, obs),
        "u32" => unsigned_u32(c, obs),
        "usize" => unsigned_usize(c, obs),
        t => crate::engine::fail("INFRA/harness_panic", format!("unknown type {t}")),
    }
}

pub fn run(run: &mut Run) {
    run.technique = "bounded exhaustive enumeration over an integer box and dyadic floats; oracle = exact image of the denoted set (member-wise soundness, attained bounds, kind)".into();
    run.rule = "all 63 intervals with bounds in [-4,4] x all scalars in [-4,4] for + - * / and negation, all ordered interval pairs for A+B / A-B, in i32, i64 (scaled), f64 (unit 0.5) and f32 (unit 0.25); the representable part of the same over u8 / u32 / usize with bounds 0..6; relative_to over non-negative intervals x strictly positive references on three dyadic grids and at four extreme scales (subnormal, smallest normal, 2^1000, and 2^1021 where the largest bounds exceed MAX/2); + - * / and negation on random f32/f64 intervals of mixed magnitude (bounds = rounded image of the attaining bounds, at most one ulp outwards); relative_to on random non-dyadic f32/f64 bounds with self between 100 % and one ulp away from the reference, each bound compared with the exact rational (x-r)/r within 2 ulp; every case is non-trivial; distinct = (type, op, operands)".into();
    let all = all_intervals(-B, B);
    for ty in ["i32", "i64", "f64", "f32"] {
        for op in ["add", "sub", "mul", "div", "neg"] {
            for a in &all {
                if op == "neg" {
                    run.case("scalar", &ScalarCase { ty: ty.into(), op: op.into(), a: *a, k: 0 }, scalar_case);
                    continue;
                }
                for k in -B..=B {
                    if op == "div" && k == 0 {
                        continue;
                    }
                    run.case("scalar", &ScalarCase { ty: ty.into(), op: op.into(), a: *a, k }, scalar_case);
                }
            }
        }
        for op in ["add", "sub"] {
            for a in &all {
                for b in &all {
                    run.case("pair", &PairCase { ty: ty.into(), op: op.into(), a: *a, b: *b }, pair_case);
                }
            }
        }
    }
    // unsigned element types
    let uall = all_intervals(0, 6);
    for ty in ["u8", "u32", "usize"] {
        for a in &uall {
            for b in &uall {
                for op in ["add", "sub"] {
                    run.case("unsigned", &UnsignedCase { ty: ty.into(), op: op.into(), a: *a, b: *b, k: 0 }, unsigned_case);
                }
            }
            for k in 0u32..=6 {
                for op in ["sadd", "ssub", "smul", "sdiv"] {
                    if op == "sdiv" && k == 0 {
                        continue;
                    }
                    run.case("unsigned", &UnsignedCase { ty: ty.into(), op: op.into(), a: *a, b: MI::two(0, 0), k }, unsigned_case);
                }
            }
        }
    }
    run.require_class("unsigned/sub/upper-two");
    run.require_class("unsigned/add/two-upper");
    // relative_to
    let nonneg: Vec<MI> = all_intervals(0, 6).into_iter().filter(|m| m.kind != 2).collect();
    let pos: Vec<MI> = all_intervals(1, 6).into_iter().filter(|m| m.kind != 2).collect();
    for (unit, scale_exp) in [(16, 0), (8, 0), (3, 0), (16, -1070), (16, 1000), (16, -1022), (16, 1021)] {
        for r in &pos {
            for t in &nonneg {
                run.case("relative_to", &RelCase { reference: *r, this: *t, unit_sixteenths: unit, scale_exp, neg_zero: false }, rel_case);
                if scale_exp == 0 && (t.lo() == 0 || t.hi() == 0) {
                    run.case("relative_to", &RelCase { reference: *r, this: *t, unit_sixteenths: unit, scale_exp, neg_zero: true }, rel_case);
                }
            }
        }
    }
    run.exhaustive = true;
    // interval arithmetic on generic floats of mixed magnitude
    {
        let n = run.tier.pick(80_000, 4_000_000);
        let val = |f32_: bool| {
            let elim = if f32_ { 30i32 } else { 200 };
            (any::<bool>(), (1u64 << 52)..(1u64 << 53), -elim..=elim, 0u8..8).prop_map(move |(neg, m, e, sp)| {
                let v = match sp {
                    0 => 0.0,
                    1 => (m % 17) as f64 * 0.1,
                    2 => (m % 9) as f64,
                    _ => m as f64 / (1u64 << 52) as f64 * crate::fl::pow2(e),
                };
                let v = if neg { -v } else { v };
                X(if f32_ { (v as f32) as f64 } else { v })
            })
        };
        let s = any::<bool>().prop_flat_map(move |f32_| {
            (Just(f32_), prop::sample::select(vec!["add", "sub", "sadd", "ssub", "smul", "sdiv", "neg"]), 0u8..3, 0u8..3, (val(f32_), val(f32_)), (val(f32_), val(f32_)), val(f32_))
                .prop_map(|(f32_, op, ka, kb, a, b, s)| ArithRandom { f32: f32_, op: op.to_string(), ka, kb, a, b, s })
        });
        run.prop("arith_random", n, s, arith_random_case);
        for op in ["add", "sub", "smul", "sdiv", "neg"] {
            run.require_class(&format!("arith_random/{op}"));
        }
    }
    // relative_to on generic floats, self from far from to extremely close to the reference
    {
        let n = run.tier.pick(60_000, 3_000_000);
        let mant = || (1u64 << 52)..(1u64 << 53);
        let s = (any::<bool>(), 0u8..2, 0u8..2, mant(), mant(), -30i32..=30, prop::collection::vec((0u32..50, mant(), any::<bool>()), 2..=2)).prop_map(|(f32_, kr, ks, m1, m2, e, d)| {
            let cast = |v: f64| if f32_ { (v as f32) as f64 } else { v };
            let r1 = cast(m1 as f64 / (1u64 << 52) as f64 * crate::fl::pow2(e));
            let r2 = cast(r1 * (1.0 + (m2 as f64 / (1u64 << 53) as f64 - 0.5) * 0.25));
            // self bounds: reference bounds times (1 ± 2^-k * u), k in 0..50 — from 100 % apart down to the last bits
            let mut sb = vec![];
            for (i, (k, m, neg)) in d.iter().enumerate() {
                let delta = (*m as f64 / (1u64 << 53) as f64) * crate::fl::pow2(-(*k as i32));
                let base = if i == 0 { r1 } else { r2 };
                sb.push(cast(base * if *neg { 1.0 - delta.min(0.999) } else { 1.0 + delta }));
            }
            RelRandom { f32: f32_, kr, ks, r1: X(r1), r2: X(r2), s1: X(sb[0]), s2: X(sb[1]) }
        });
        run.prop("relative_to_random", n, s, rel_random_case);
        run.require_class("relative_to_random/f64/self-close-to-reference");
        run.require_class("relative_to_random/f32/self-close-to-reference");
    }
    run.exhaustive_parts.push("all interval x scalar and interval x interval combinations over the box [-4,4] in four element types; relative_to over bounds 0..6 / 1..6 on three grids".into());
    for op in ["add", "sub", "mul", "div"] {
        for kind in ["two", "upper", "lower"] {
            for s in ["pos", "neg"] {
                run.require_class(&format!("{op}_scalar/{kind}/{s}"));
            }
        }
    }
    for kind in ["two", "upper", "lower"] {
        run.require_class(&format!("neg_scalar/{kind}/na"));
    }
    run.assumptions.push("element arithmetic on the generated values is exact (small integers, dyadic floats); overflow of the element type is outside the property".into());
    run.assumptions.push("multiplying a one-sided interval by 0 has image {0}, which no one-sided interval denotes tightly: only soundness is required there".into());
}

pub fn replay(sub: &str, v: &Value, obs: &mut Obs) -> Option<PResult> {
    Some(match sub {
        "scalar" => scalar_case(&de(v), obs),
        "pair" => pair_case(&de(v), obs),
        "relative_to" => rel_case(&de(v), obs),
        "relative_to_random" => rel_random_case(&de(v), obs),
        "arith_random" => arith_random_case(&de(v), obs),
        "unsigned" => unsigned_case(&de(v), obs),
        _ => return None,
    })
}
