//! C09 — incremental, chunked, merged and parallel accumulation equal the batch result.
//! Programs over a small register file are interpreted on the real state types and on a multiset
//! model; statistics are compared with the exact statistics of the model after every query.

use crate::engine::{guard, Obs, PResult, Run};
use crate::fl::{Fl, X};
use crate::meanref::{compare_mean_interval_x, MeanRef};
use crate::model::{bounds, call, ek, Conf, Out};
use crate::props::c04::unpaired_ref;
use crate::props::de;
use proptest::prelude::*;
use rayon::prelude::*;
use serde::{Deserialize, Serialize};
use serde_json::{json, Value};
use stats_ci::comparison::{Paired, Unpaired};
use stats_ci::mean::{Arithmetic, Geometric, Harmonic};
use stats_ci::{proportion, quantile, Interval, StatisticsOps};

#[derive(Clone, Copy, Debug, Serialize, Deserialize, PartialEq)]
pub struct Item {
    pub x: X,
    pub y: X,
    /// sample selector (unpaired: true = sample a) / success flag (proportion)
    pub flag: bool,
}

#[derive(Clone, Debug, Serialize, Deserialize)]
pub enum Op {
    New { dst: u8 },
    Append { dst: u8, it: Item },
    Extend { dst: u8, its: Vec<Item> },
    FromIter { dst: u8, its: Vec<Item> },
    Copy { dst: u8, src: u8 },
    Add { dst: u8, a: u8, b: u8 },
    AddAssign { dst: u8, src: u8 },
    Query { slot: u8, conf: Conf, q: X },
}
#[derive(Clone, Debug, Serialize, Deserialize)]
pub struct Program {
    pub ty: String,
    pub ops: Vec<Op>,
}
pub const TYPES: [&str; 12] = ["Arithmetic<f64>", "Arithmetic<f32>", "Geometric<f64>", "Geometric<f32>", "Harmonic<f64>", "Harmonic<f32>", "Paired<f64>", "Unpaired<f64>", "proportion::Stats", "quantile::Stats", "Paired<f32>", "Unpaired<f32>"];

pub trait Acc: Sized + Clone + std::fmt::Debug + Send + Sync {
    fn new() -> Self;
    /// the other way of producing an empty state (Default where `new` is used and the reverse)
    fn new_alt() -> Self {
        Self::new()
    }
    /// overwrite self with a copy of `src` through the inner type's own `Clone::clone_from`, directly (`via_vec` false)
    /// or through the `clone_from` of a Vec holding the inner states
    fn copy_from(&mut self, src: &Self, via_vec: bool);
    fn append(&mut self, it: &Item) -> Result<(), String>;
    fn extend(&mut self, its: &[Item]) -> Result<(), String>;
    fn from_items(its: &[Item]) -> Result<Self, String>;
    fn plus(a: &Self, b: &Self) -> Self;
    fn plus_assign(&mut self, b: &Self);
    fn count(&self) -> usize;
    /// everything a user can read, as numbers (error kinds are encoded), for identity comparisons
    fn observe(&self, conf: &Conf, q: f64) -> Vec<f64>;
    /// compare with the exact statistics of the model multiset
    fn check(&self, model: &[Item], depth: u32, conf: &Conf, q: f64, ty: &str, obs: &mut Obs) -> PResult;
    /// smallest count for which a query is meaningful
    fn min_query() -> usize {
        2
    }
}

fn es(e: stats_ci::error::CIError) -> String {
    format!("{e:?}")
}
fn enc<F: Fl>(o: Out<Interval<F>>) -> Vec<f64> {
    match o {
        Out::Ok(i) => {
            let (k, l, h) = bounds(&i);
            vec![k as f64, l, h]
        }
        Out::Err(e) => vec![-1.0, ek(&e) as u8 as f64, 0.0],
        Out::Panic(_) => vec![-2.0, 0.0, 0.0],
    }
}
fn same_obs(a: &[f64], b: &[f64], max_ulps: u64) -> bool {
    a.len() == b.len()
        && a.iter().zip(b.iter()).all(|(x, y)| {
            if x.to_bits() == y.to_bits() || (x.is_nan() && y.is_nan()) {
                return true;
            }
            if max_ulps == 0 {
                return false;
            }
            // values may come from f32 computations widened to f64: compare in f32 when both are f32 values
            let (fx, fy) = (*x as f32, *y as f32);
            if fx as f64 == *x && fy as f64 == *y {
                crate::fl::ulps32(fx, fy) <= max_ulps
            } else {
                crate::fl::ulps64(*x, *y) <= max_ulps
            }
        })
}

/// shared check for states that wrap an Arithmetic over derived data `d` (in F)
fn check_mean_state<F: Fl>(what: &str, ty: &str, d: &[f64], count: usize, mean: f64, var: Option<f64>, got: Out<Interval<F>>, conf: &Conf, depth: u32, obs: &mut Obs) -> PResult {
    check_mean_state_x::<F>(what, ty, d, count, mean, 0.0, var, got, conf, depth, obs)
}
/// `extra` is an additional absolute allowance on the mean (round trips through exp/ln or 1/x)
fn check_mean_state_x<F: Fl>(what: &str, ty: &str, d: &[f64], count: usize, mean: f64, extra: f64, var: Option<f64>, got: Out<Interval<F>>, conf: &Conf, depth: u32, obs: &mut Obs) -> PResult {
    ensure!(count == d.len(), format!("C09/{what}/sample_count"), "{ty}: sample_count {count}, the history delivered {} observations", d.len());
    if d.len() < 2 {
        return Ok(());
    }
    let r = MeanRef::new(d);
    let i = match got {
        Out::Ok(i) => i,
        o => return crate::engine::fail(format!("C09/{what}/query_failed"), format!("{ty}: ci_mean on {} observations: {}", d.len(), o.describe())),
    };
    let g = bounds(&i);
    ensure!(g.0 == conf.kind && !g.1.is_nan() && !g.2.is_nan() && g.1 <= g.2, format!("C09/{what}/malformed"), "{ty}: {i:?} for {conf:?}");
    if !r.conditioned::<F>(depth) {
        obs.exclude("state outside the conditioning domain (count and well-formedness only)");
        return Ok(());
    }
    let e = (mean - r.mean).abs();
    let t = 2.0 * r.tol_mean::<F>(depth) + extra;
    ensure!(e <= t, format!("C09/{what}/mean"), "{ty}: mean {mean:e} vs exact mean of the multiset {:e} (err {e:e} > tol {t:e}, n {}, merge depth {depth})", r.mean, r.n);
    obs.headroom(&format!("mean/{ty}"), e / t, || json!({"n": r.n, "depth": depth}));
    if let Some(v) = var {
        let e = (v - r.var).abs();
        let t = 2.0 * r.tol_var::<F>(depth) + 2.0 * F::U * r.var;
        ensure!(e <= t, format!("C09/{what}/variance"), "{ty}: variance {v:e} vs exact {:e} (err {e:e} > tol {t:e}, n {}, merge depth {depth})", r.var, r.n);
        obs.headroom(&format!("variance/{ty}"), e / t, || json!({"n": r.n, "depth": depth}));
    }
    // the same round-trip allowance applies to each bound (relative u on exp / 1/x = absolute `extra` here)
    match compare_mean_interval_x::<F>(&r, conf, (r.n - 1) as f64, depth, g, extra * (1.0 + g.1.abs().min(g.2.abs()) / (mean.abs() + f64::MIN_POSITIVE)).min(64.0)) {
        Ok(ratio) => obs.headroom(&format!("ci/{ty}"), ratio, || json!({"n": r.n, "depth": depth})),
        Err(msg) => return crate::engine::fail(format!("C09/{what}/ci"), format!("{ty} (merge depth {depth}): {msg}")),
    }
    Ok(())
}

macro_rules! impl_arith_like {
    ($wrap:ident, $inner:ident, $what:expr, $transform:expr, $valid:expr) => {
        #[derive(Clone, Debug)]
        pub struct $wrap<F: Fl>(pub $inner<F>);
        impl<F: Fl> Acc for $wrap<F> {
            fn new() -> Self {
                $wrap($inner::<F>::new())
            }
            fn new_alt() -> Self {
                $wrap($inner::<F>::default())
            }
            fn copy_from(&mut self, src: &Self, via_vec: bool) {
                if via_vec {
                    let mut v = vec![self.0.clone()];
                    v.clone_from(&vec![src.0.clone()]);
                    self.0 = v.pop().unwrap();
                } else {
                    self.0.clone_from(&src.0);
                }
            }
            fn append(&mut self, it: &Item) -> Result<(), String> {
                StatisticsOps::append(&mut self.0, F::from64(it.x.0)).map_err(es)
            }
            fn extend(&mut self, its: &[Item]) -> Result<(), String> {
                let v: Vec<F> = its.iter().map(|i| F::from64(i.x.0)).collect();
                StatisticsOps::extend(&mut self.0, &v).map_err(es)
            }
            fn from_items(its: &[Item]) -> Result<Self, String> {
                let v: Vec<F> = its.iter().map(|i| F::from64(i.x.0)).collect();
                <$inner<F> as StatisticsOps<F>>::from_iter(&v).map($wrap).map_err(es)
            }
            fn plus(a: &Self, b: &Self) -> Self {
                $wrap(a.0 + b.0)
            }
            fn plus_assign(&mut self, b: &Self) {
                self.0 += b.0;
            }
            fn count(&self) -> usize {
                self.0.sample_count()
            }
            fn observe(&self, conf: &Conf, _q: f64) -> Vec<f64> {
                let mut v = vec![self.0.sample_count() as f64];
                if self.0.sample_count() >= 2 {
                    v.push(self.0.sample_mean().to64());
                    v.push(self.0.sample_sem().to64());
                    v.extend(enc(call(|| self.0.ci_mean(conf.get()))));
                }
                v
            }
            fn check(&self, model: &[Item], depth: u32, conf: &Conf, _q: f64, ty: &str, obs: &mut Obs) -> PResult {
                let tf: fn(F) -> F = $transform;
                let d: Vec<f64> = model.iter().map(|i| tf(F::from64(i.x.0)).to64()).collect();
                let _ = $valid;
                check_state::<F>($what, ty, &d, self.0.sample_count(), if d.len() >= 2 { self.0.sample_mean().to64() } else { 0.0 }, call(|| self.0.ci_mean(conf.get())), conf, depth, obs)
            }
        }
    };
}

/// dispatch on the transform: arithmetic directly, geometric in log space, harmonic in reciprocal space
fn check_state<F: Fl>(what: &str, ty: &str, d: &[f64], count: usize, mean: f64, got: Out<Interval<F>>, conf: &Conf, depth: u32, obs: &mut Obs) -> PResult {
    match what {
        "arithmetic" => check_mean_state::<F>(what, ty, d, count, mean, None, got, conf, depth, obs),
        "geometric" => {
            // state mean = exp(mean of logs); interval = exp of the log-space interval
            let got_log = match got {
                Out::Ok(i) => {
                    let (k, l, h) = bounds(&i);
                    let back = |k: u8, l: f64, h: f64| -> Interval<F> {
                        match k {
                            0 => Interval::TwoSided(F::from64(l.ln()), F::from64(h.ln())),
                            1 => Interval::UpperOneSided(F::from64(l.ln())),
                            _ => Interval::LowerOneSided(F::from64(h.ln())),
                        }
                    };
                    // bounds in the subnormal range (or at overflow) have lost precision in exp: not comparable in log space
                    let tiny = F::min_positive_value().to64() * 1024.0;
                    let huge = F::max_value().to64() / 1024.0;
                    if (k != 2 && !(l > tiny && l < huge)) || (k != 1 && !(h > tiny && h < huge)) {
                        obs.exclude("geometric bound under/overflows the float type");
                        return Ok(());
                    }
                    Out::Ok(back(k, l, h))
                }
                Out::Err(e) => Out::Err(e),
                Out::Panic(p) => Out::Panic(p),
            };
            // one more level of slack for the exp/ln round trip
            check_mean_state_x::<F>(what, ty, d, count, mean.ln(), 4.0 * F::U * (1.0 + mean.ln().abs()), None, got_log, conf, depth + 1, obs)
        }
        _ => {
            // harmonic: 1/mean is the mean of reciprocals; the interval is the reciprocal of the flipped one
            let got_rec = match got {
                Out::Ok(i) => {
                    let (k, l, h) = bounds(&i);
                    if (k != 2 && !(l > 0.0)) || (k != 1 && !(h > 0.0 && h.is_finite())) {
                        obs.exclude("harmonic: reciprocal-space bound <= 0 (outside C05's domain)");
                        return Ok(());
                    }
                    let r: Interval<F> = match k {
                        0 => Interval::TwoSided(F::from64(1.0 / h), F::from64(1.0 / l)),
                        1 => Interval::LowerOneSided(F::from64(1.0 / l)),
                        _ => Interval::UpperOneSided(F::from64(1.0 / h)),
                    };
                    Out::Ok(r)
                }
                Out::Err(stats_ci::error::CIError::IntervalError(_)) if d.len() >= 2 => {
                    // two-sided request whose reciprocal-space interval reaches 0: 1/low < 1/high is rejected by Interval::new
                    let r = MeanRef::new(d);
                    let c = crate::meanref::crit((r.n - 1) as f64, conf).c.abs();
                    ensure!(r.mean - c * r.se <= r.mean * 1e-6 + r.tol_mean::<F>(depth + 1), "C09/harmonic/query_failed", "{ty}: ci_mean = Err(InvalidBounds) although the reciprocal-space interval {:e} -/+ {:e} is positive", r.mean, c * r.se);
                    obs.exclude("harmonic: reciprocal-space bound <= 0 (outside C05's domain)");
                    return Ok(());
                }
                Out::Err(e) => Out::Err(e),
                Out::Panic(p) => Out::Panic(p),
            };
            check_mean_state_x::<F>(what, ty, d, count, 1.0 / mean, 4.0 * F::U * (1.0 / mean).abs(), None, got_rec, &conf.flipped(), depth + 1, obs)
        }
    }
}

impl_arith_like!(AArith, Arithmetic, "arithmetic", |x| x, true);
impl_arith_like!(AGeo, Geometric, "geometric", |x| x.ln(), true);
impl_arith_like!(AHar, Harmonic, "harmonic", |x| F::one() / x, true);

#[derive(Clone, Debug)]
pub struct APaired<F: Fl>(pub Paired<F>);
impl<F: Fl> Acc for APaired<F> {
    fn new() -> Self {
        APaired(Paired::default())
    }
    fn copy_from(&mut self, src: &Self, via_vec: bool) {
        if via_vec {
            let mut v = vec![self.0.clone()];
            v.clone_from(&vec![src.0.clone()]);
            self.0 = v.pop().unwrap();
        } else {
            self.0.clone_from(&src.0);
        }
    }
    fn append(&mut self, it: &Item) -> Result<(), String> {
        self.0.append_pair(F::from64(it.x.0), F::from64(it.y.0)).map_err(es)
    }
    fn extend(&mut self, its: &[Item]) -> Result<(), String> {
        if its.len() % 2 == 0 {
            let (a, b): (Vec<F>, Vec<F>) = its.iter().map(|i| (F::from64(i.x.0), F::from64(i.y.0))).unzip();
            self.0.extend(&a, &b).map_err(es)
        } else {
            let t: Vec<(F, F)> = its.iter().map(|i| (F::from64(i.x.0), F::from64(i.y.0))).collect();
            self.0.extend_tuple(&t).map_err(es)
        }
    }
    fn from_items(its: &[Item]) -> Result<Self, String> {
        let mut s = Self::new();
        s.extend(its)?;
        Ok(s)
    }
    fn plus(a: &Self, b: &Self) -> Self {
        APaired(a.0.clone() + b.0.clone())
    }
    fn plus_assign(&mut self, b: &Self) {
        self.0 += b.0.clone();
    }
    fn count(&self) -> usize {
        self.0.sample_count()
    }
    fn observe(&self, conf: &Conf, _q: f64) -> Vec<f64> {
        let mut v = vec![self.0.sample_count() as f64];
        if self.0.sample_count() >= 2 {
            v.push(self.0.sample_mean().to64());
            v.push(self.0.sample_sem().to64());
            v.extend(enc(call(|| self.0.ci_mean(conf.get()))));
        }
        v
    }
    fn check(&self, model: &[Item], depth: u32, conf: &Conf, _q: f64, ty: &str, obs: &mut Obs) -> PResult {
        let d: Vec<f64> = model.iter().map(|i| (F::from64(i.x.0) - F::from64(i.y.0)).to64()).collect();
        check_mean_state::<F>("paired", ty, &d, self.0.sample_count(), if d.len() >= 2 { self.0.sample_mean().to64() } else { 0.0 }, None, call(|| self.0.ci_mean(conf.get())), conf, depth, obs)
    }
}

#[derive(Clone, Debug)]
pub struct AUnpaired<F: Fl>(pub Unpaired<F>);
impl<F: Fl> Acc for AUnpaired<F> {
    fn new() -> Self {
        AUnpaired(Unpaired::default())
    }
    fn copy_from(&mut self, src: &Self, via_vec: bool) {
        if via_vec {
            let mut v = vec![self.0.clone()];
            v.clone_from(&vec![src.0.clone()]);
            self.0 = v.pop().unwrap();
        } else {
            self.0.clone_from(&src.0);
        }
    }
    fn append(&mut self, it: &Item) -> Result<(), String> {
        // by name, or through the mutable views of the two per-sample states (chosen by a bit of the value)
        let via_view = it.x.0.to_bits() & 2 != 0;
        let x = F::from64(it.x.0);
        match (it.flag, via_view) {
            (true, false) => self.0.append_a(x).map_err(es),
            (false, false) => self.0.append_b(x).map_err(es),
            (true, true) => StatisticsOps::append(self.0.stats_a_mut(), x).map_err(es),
            (false, true) => StatisticsOps::append(self.0.stats_b_mut(), x).map_err(es),
        }
    }
    fn extend(&mut self, its: &[Item]) -> Result<(), String> {
        let a: Vec<F> = its.iter().filter(|i| i.flag).map(|i| F::from64(i.x.0)).collect();
        let b: Vec<F> = its.iter().filter(|i| !i.flag).map(|i| F::from64(i.x.0)).collect();
        if its.len() % 3 == 0 {
            self.0.extend(&a, &b).map_err(es)
        } else if its.len() % 3 == 1 {
            StatisticsOps::extend(self.0.stats_b_mut(), &b).map_err(es)?;
            StatisticsOps::extend(self.0.stats_a_mut(), &a).map_err(es)
        } else {
            self.0.extend_b(&b).map_err(es)?;
            self.0.extend_a(&a).map_err(es)
        }
    }
    fn from_items(its: &[Item]) -> Result<Self, String> {
        let a: Vec<F> = its.iter().filter(|i| i.flag).map(|i| F::from64(i.x.0)).collect();
        let b: Vec<F> = its.iter().filter(|i| !i.flag).map(|i| F::from64(i.x.0)).collect();
        Unpaired::from_iter(&a, &b).map(AUnpaired).map_err(es)
    }
    fn plus(a: &Self, b: &Self) -> Self {
        AUnpaired(a.0.clone() + b.0.clone())
    }
    fn plus_assign(&mut self, b: &Self) {
        self.0 += b.0.clone();
    }
    fn count(&self) -> usize {
        self.0.stats_a().sample_count() + self.0.stats_b().sample_count()
    }
    fn min_query() -> usize {
        4
    }
    fn observe(&self, conf: &Conf, _q: f64) -> Vec<f64> {
        let (sa, sb) = (self.0.stats_a(), self.0.stats_b());
        let mut v = vec![sa.sample_count() as f64, sb.sample_count() as f64];
        if sa.sample_count() >= 2 && sb.sample_count() >= 2 {
            v.push(sa.sample_mean().to64());
            v.push(sb.sample_mean().to64());
            v.extend(enc(call(|| self.0.ci_mean(conf.get()))));
        }
        v
    }
    fn check(&self, model: &[Item], depth: u32, conf: &Conf, _q: f64, ty: &str, obs: &mut Obs) -> PResult {
        let a: Vec<f64> = model.iter().filter(|i| i.flag).map(|i| i.x.0).collect();
        let b: Vec<f64> = model.iter().filter(|i| !i.flag).map(|i| i.x.0).collect();
        let (sa, sb) = (self.0.stats_a(), self.0.stats_b());
        ensure!(sa.sample_count() == a.len() && sb.sample_count() == b.len(), "C09/unpaired/sample_count", "{ty}: counts ({}, {}), the history delivered ({}, {})", sa.sample_count(), sb.sample_count(), a.len(), b.len());
        if a.len() < 2 || b.len() < 2 {
            return Ok(());
        }
        let (ra, rb) = (MeanRef::new(&a), MeanRef::new(&b));
        for (name, s, r) in [("a", sa, &ra), ("b", sb, &rb)] {
            if r.conditioned::<F>(depth) {
                let e = (s.sample_mean().to64() - r.mean).abs();
                let t = 2.0 * r.tol_mean::<F>(depth);
                ensure!(e <= t, "C09/unpaired/mean", "{ty}: mean of sample {name} {:e} vs exact {:e} (err {e:e} > tol {t:e})", s.sample_mean().to64(), r.mean);
                let e = (s.sample_variance().to64() - r.var).abs();
                let t = 2.0 * r.tol_var::<F>(depth) + 2.0 * F::U * r.var;
                ensure!(e <= t, "C09/unpaired/variance", "{ty}: variance of sample {name} {:e} vs exact {:e} (err {e:e} > tol {t:e})", s.sample_variance().to64(), r.var);
            }
        }
        let i = match call(|| self.0.ci_mean(conf.get())) {
            Out::Ok(i) => i,
            o => return crate::engine::fail("C09/unpaired/query_failed", format!("{ty}: {}", o.describe())),
        };
        let (k, lo, hi) = bounds(&i);
        ensure!(k == conf.kind && !lo.is_nan() && !hi.is_nan() && lo <= hi, "C09/unpaired/malformed", "{ty}: {i:?} for {conf:?}");
        if ra.conditioned::<F>(depth) && rb.conditioned::<F>(depth) {
            if let Some(r) = unpaired_ref::<F>(&ra, &rb, conf) {
                let tol = r.tol * (1.0 + depth as f64 * 0.5);
                for (g, e, finite) in [(lo, r.diff - r.c * r.se, k != 2), (hi, r.diff + r.c * r.se, k != 1)] {
                    if finite {
                        let d = (g - e).abs();
                        ensure!(d <= tol, "C09/unpaired/ci", "{ty} (merge depth {depth}): bound {g:e} vs exact-statistics reference {e:e} (diff {d:e} > tol {tol:e}; na {}, nb {})", a.len(), b.len());
                        obs.headroom(&format!("ci/{ty}"), d / tol, || json!({"na": a.len(), "nb": b.len()}));
                    }
                }
            }
        }
        Ok(())
    }
}

#[derive(Clone, Debug)]
pub struct AProp(pub proportion::Stats);
impl Acc for AProp {
    fn new() -> Self {
        AProp(proportion::Stats::default())
    }
    fn new_alt() -> Self {
        AProp(proportion::Stats::new(0, 0))
    }
    fn copy_from(&mut self, src: &Self, via_vec: bool) {
        if via_vec {
            let mut v = vec![self.0.clone()];
            v.clone_from(&vec![src.0.clone()]);
            self.0 = v.pop().unwrap();
        } else {
            self.0.clone_from(&src.0);
        }
    }
    fn append(&mut self, it: &Item) -> Result<(), String> {
        if it.flag {
            self.0.add_success()
        } else {
            self.0.add_failure()
        }
        Ok(())
    }
    fn extend(&mut self, its: &[Item]) -> Result<(), String> {
        if its.len() % 2 == 0 {
            let v: Vec<bool> = its.iter().map(|i| i.flag).collect();
            self.0.extend(&v);
        } else {
            let v: Vec<f64> = its.iter().map(|i| if i.flag { 1.0 } else { -1.0 }).collect();
            self.0.extend_if(&v, |x| *x > 0.0);
        }
        Ok(())
    }
    fn from_items(its: &[Item]) -> Result<Self, String> {
        if its.len() % 2 == 0 {
            Ok(AProp(its.iter().map(|i| i.flag).collect()))
        } else {
            // through a filtering iterator, whose size_hint upper bound exceeds the number of items it yields
            let padded: Vec<Option<bool>> = its.iter().flat_map(|i| [Some(i.flag), None]).collect();
            Ok(AProp(padded.into_iter().flatten().collect()))
        }
    }
    fn plus(a: &Self, b: &Self) -> Self {
        AProp(a.0 + b.0)
    }
    fn plus_assign(&mut self, b: &Self) {
        self.0 += b.0;
    }
    fn count(&self) -> usize {
        self.0.population()
    }
    fn min_query() -> usize {
        0
    }
    fn observe(&self, conf: &Conf, _q: f64) -> Vec<f64> {
        let mut v = vec![self.0.population() as f64, self.0.successes() as f64];
        v.extend(enc(call(|| self.0.ci(conf.get()))));
        v
    }
    fn check(&self, model: &[Item], _depth: u32, conf: &Conf, _q: f64, ty: &str, obs: &mut Obs) -> PResult {
        let n = model.len();
        let k = model.iter().filter(|i| i.flag).count();
        ensure!(self.0.population() == n && self.0.successes() == k, "C09/proportion/component_sum", "{ty}: (population, successes) = ({}, {}), the history delivered ({n}, {k})", self.0.population(), self.0.successes());
        ensure!(self.0 == proportion::Stats::new(n, k), "C09/proportion/component_sum", "{ty}: state differs from Stats::new({n}, {k})");
        let got = enc(call(|| self.0.ci(conf.get())));
        let want = enc(call(|| proportion::ci(conf.get(), n, k)));
        ensure!(same_obs(&got, &want, 0), "C09/proportion/ci", "{ty}: ci of the merged state {got:?} differs from ci of the summed counts ({n}, {k}) {want:?}");
        let _ = obs;
        Ok(())
    }
}

#[derive(Clone, Debug)]
pub struct AQuant(pub quantile::Stats);
impl Acc for AQuant {
    fn new() -> Self {
        AQuant(quantile::Stats::default())
    }
    fn new_alt() -> Self {
        AQuant(quantile::Stats::new(0))
    }
    fn copy_from(&mut self, src: &Self, via_vec: bool) {
        if via_vec {
            let mut v = vec![self.0.clone()];
            v.clone_from(&vec![src.0.clone()]);
            self.0 = v.pop().unwrap();
        } else {
            self.0.clone_from(&src.0);
        }
    }
    fn append(&mut self, _it: &Item) -> Result<(), String> {
        self.0 += quantile::Stats::new(1);
        Ok(())
    }
    fn extend(&mut self, its: &[Item]) -> Result<(), String> {
        self.0 = self.0 + quantile::Stats::new(its.len());
        Ok(())
    }
    fn from_items(its: &[Item]) -> Result<Self, String> {
        Ok(AQuant(quantile::Stats::new(its.len())))
    }
    fn plus(a: &Self, b: &Self) -> Self {
        AQuant(a.0 + b.0)
    }
    fn plus_assign(&mut self, b: &Self) {
        self.0 += b.0;
    }
    fn count(&self) -> usize {
        // no accessor: the population is read from equality with a fresh state
        let mut n = 0;
        while self.0 != quantile::Stats::new(n) && n < 1_000_000 {
            n += 1;
        }
        n
    }
    fn min_query() -> usize {
        0
    }
    fn observe(&self, conf: &Conf, q: f64) -> Vec<f64> {
        let o = call(|| self.0.ci(conf.get(), q));
        match o {
            Out::Ok(Interval::TwoSided(a, b)) => vec![0.0, a as f64, b as f64],
            Out::Ok(Interval::UpperOneSided(a)) => vec![1.0, a as f64, f64::INFINITY],
            Out::Ok(Interval::LowerOneSided(b)) => vec![2.0, f64::NEG_INFINITY, b as f64],
            Out::Err(e) => vec![-1.0, ek(&e) as u8 as f64, 0.0],
            Out::Panic(_) => vec![-2.0, 0.0, 0.0],
        }
    }
    fn check(&self, model: &[Item], _depth: u32, conf: &Conf, q: f64, ty: &str, _obs: &mut Obs) -> PResult {
        let n = model.len();
        ensure!(self.0 == quantile::Stats::new(n), "C09/quantile/component_sum", "{ty}: state {:?} differs from Stats::new({n})", self.0);
        let got = self.observe(conf, q);
        let want = AQuant(quantile::Stats::new(n)).observe(conf, q);
        let direct = match call(|| quantile::ci_indices(conf.get(), n, q)) {
            Out::Ok(Interval::TwoSided(a, b)) => vec![0.0, a as f64, b as f64],
            Out::Ok(Interval::UpperOneSided(a)) => vec![1.0, a as f64, f64::INFINITY],
            Out::Ok(Interval::LowerOneSided(b)) => vec![2.0, f64::NEG_INFINITY, b as f64],
            Out::Err(e) => vec![-1.0, ek(&e) as u8 as f64, 0.0],
            Out::Panic(_) => vec![-2.0, 0.0, 0.0],
        };
        ensure!(same_obs(&got, &want, 0) && same_obs(&got, &direct, 0), "C09/quantile/ci", "{ty}: ci of the merged state {got:?} differs from ci of the summed population {n}: {want:?} / ci_indices {direct:?}");
        Ok(())
    }
}

// interpreter ---------------------------------------------------------------------------------------

struct Slot<S> {
    s: S,
    model: Vec<Item>,
    depth: u32,
}

fn interpret<S: Acc>(p: &Program, obs: &mut Obs) -> PResult {
    let ty = p.ty.as_str();
    let mut slots: Vec<Slot<S>> = (0..4).map(|i| Slot { s: if i % 2 == 0 { S::new() } else { S::new_alt() }, model: vec![], depth: 0 }).collect();
    let mut merges_nonempty = 0;
    let mut merges_empty = 0;
    let mut queries_between = 0;
    let mut updates_since_query = false;
    for (step, op) in p.ops.iter().enumerate() {
        obs.eval();
        let ctx = |e: String| crate::engine::Fail { sig: format!("C09/{ty}/op_failed"), msg: format!("step {step} {op:?}: {e}") };
        let touched: usize;
        match op {
            Op::New { dst } => {
                let d = *dst as usize % 4;
                slots[d] = Slot { s: if step % 2 == 0 { S::new() } else { S::new_alt() }, model: vec![], depth: 0 };
                touched = d;
            }
            Op::Append { dst, it } => {
                let d = *dst as usize % 4;
                slots[d].s.append(it).map_err(ctx)?;
                slots[d].model.push(*it);
                touched = d;
                updates_since_query = true;
            }
            Op::Extend { dst, its } => {
                let d = *dst as usize % 4;
                slots[d].s.extend(its).map_err(ctx)?;
                slots[d].model.extend(its.iter().copied());
                touched = d;
                updates_since_query = true;
            }
            Op::FromIter { dst, its } => {
                let d = *dst as usize % 4;
                slots[d] = Slot { s: S::from_items(its).map_err(ctx)?, model: its.clone(), depth: 0 };
                touched = d;
                updates_since_query = true;
            }
            Op::Copy { dst, src } => {
                let (d, s) = (*dst as usize % 4, *src as usize % 4);
                // every way of copying a state: clone(), clone_from onto the (populated) destination, and the
                // clone_from of a container of states
                let copy = match step % 3 {
                    0 => slots[s].s.clone(),
                    1 => {
                        let mut t = slots[d].s.clone();
                        t.copy_from(&slots[s].s, false);
                        t
                    }
                    _ => {
                        let mut t = slots[d].s.clone();
                        t.copy_from(&slots[s].s, true);
                        t
                    }
                };
                let c = Slot { s: copy, model: slots[s].model.clone(), depth: slots[s].depth };
                slots[d] = c;
                touched = d;
            }
            Op::Add { dst, a, b } => {
                let (d, a, b) = (*dst as usize % 4, *a as usize % 4, *b as usize % 4);
                let r = S::plus(&slots[a].s, &slots[b].s);
                let mut m = slots[a].model.clone();
                m.extend(slots[b].model.iter().copied());
                let depth = slots[a].depth.max(slots[b].depth) + 1;
                neutral_check::<S>(ty, "+", &r, &slots[a], &slots[b], &mut merges_empty, &mut merges_nonempty)?;
                slots[d] = Slot { s: r, model: m, depth };
                touched = d;
                updates_since_query = true;
            }
            Op::AddAssign { dst, src } => {
                let (d, s) = (*dst as usize % 4, *src as usize % 4);
                let rhs = Slot { s: slots[s].s.clone(), model: slots[s].model.clone(), depth: slots[s].depth };
                let before = Slot { s: slots[d].s.clone(), model: slots[d].model.clone(), depth: slots[d].depth };
                slots[d].s.plus_assign(&rhs.s);
                slots[d].model.extend(rhs.model.iter().copied());
                slots[d].depth = before.depth.max(rhs.depth) + 1;
                neutral_check::<S>(ty, "+=", &slots[d].s, &before, &rhs, &mut merges_empty, &mut merges_nonempty)?;
                // += must agree with + on the same operands
                let alt = S::plus(&before.s, &rhs.s);
                let conf = Conf::new(0, 0.9);
                ensure!(same_obs(&alt.observe(&conf, 0.5), &slots[d].s.observe(&conf, 0.5), 0), format!("C09/{ty}/add_assign_differs_from_add"), "step {step}: a += b gives {:?}, a + b gives {:?}", slots[d].s, alt);
                touched = d;
                updates_since_query = true;
            }
            Op::Query { slot, conf, q } => {
                let sl = *slot as usize % 4;
                touched = sl;
                if slots[sl].model.len() >= S::min_query() {
                    let before: Vec<String> = slots.iter().map(|s| format!("{:?}", s.s)).collect();
                    let o1 = slots[sl].s.observe(conf, q.0);
                    slots[sl].s.check(&slots[sl].model, slots[sl].depth.min(1), conf, q.0, ty, obs)?;
                    let o2 = slots[sl].s.observe(conf, q.0);
                    ensure!(same_obs(&o1, &o2, 0), format!("C09/{ty}/repeated_query_differs"), "step {step}: two identical queries returned {o1:?} and {o2:?}");
                    let after: Vec<String> = slots.iter().map(|s| format!("{:?}", s.s)).collect();
                    ensure!(before == after, format!("C09/{ty}/query_modifies_state"), "step {step}: a query changed a state: {before:?} -> {after:?}");
                    if updates_since_query {
                        queries_between += 1;
                    }
                    updates_since_query = false;
                }
            }
        }
        // count after every step
        let sl = &slots[touched];
        ensure!(sl.s.count() == sl.model.len(), format!("C09/{ty}/sample_count"), "step {step} {op:?}: count {} but the history delivered {} observations to this slot", sl.s.count(), sl.model.len());
    }
    // final check of every slot
    let conf = Conf::new(0, 0.95);
    for sl in &slots {
        if sl.model.len() >= S::min_query() {
            sl.s.check(&sl.model, sl.depth.min(1), &conf, 0.5, ty, obs)?;
        }
    }
    obs.class(&format!("program/{ty}"));
    if merges_nonempty > 0 {
        obs.class(&format!("merge-of-nonempty/{ty}"));
    }
    if merges_empty > 0 {
        obs.class("merge-with-empty-operand");
    }
    if queries_between > 0 {
        obs.class("query-between-updates");
    }
    if merges_nonempty + merges_empty + queries_between > 0 {
        obs.nontrivial(&crate::engine::hash_of(&serde_json::to_string(p).unwrap_or_default()));
    }
    if obs.wants_sample(&format!("program/{ty}")) {
        let short: Vec<String> = p.ops.iter().take(12).map(|o| format!("{o:?}").chars().take(90).collect()).collect();
        obs.sample(&format!("program/{ty}"), || json!({"type": ty, "ops": p.ops.len(), "first_ops": short, "final_counts": slots.iter().map(|s| s.model.len()).collect::<Vec<_>>()}));
    }
    Ok(())
}

/// merging with an empty state on either side changes nothing observable
fn neutral_check<S: Acc>(ty: &str, opname: &str, r: &S, a: &Slot<S>, b: &Slot<S>, merges_empty: &mut u32, merges_nonempty: &mut u32) -> PResult {
    let conf = Conf::new(0, 0.9);
    let other = if a.model.is_empty() {
        Some(b)
    } else if b.model.is_empty() {
        Some(a)
    } else {
        None
    };
    match other {
        Some(o) => {
            *merges_empty += 1;
            ensure!(r.count() == o.s.count(), format!("C09/{ty}/empty_not_neutral"), "{opname} with an empty operand: count {} vs {}", r.count(), o.s.count());
            // statistics: unchanged up to rounding. The mean may move by a few ulps (the merge may renormalise
            // the (sum, compensation) pair); variance-level quantities amplify that by the conditioning, so they
            // are held to the exact statistics of the unchanged multiset instead of to an ulp count.
            let (x, y) = (r.observe(&conf, 0.5), o.s.observe(&conf, 0.5));
            ensure!(x.len() == y.len(), format!("C09/{ty}/empty_not_neutral"), "{opname} with an empty operand changed what can be observed: {y:?} -> {x:?}");
            let int_like = |v: &[f64]| v.iter().all(|t| t.fract() == 0.0 || !t.is_finite());
            if int_like(&x) && int_like(&y) {
                ensure!(same_obs(&x, &y, 0), format!("C09/{ty}/empty_not_neutral"), "{opname} with an empty operand changed the state: {y:?} -> {x:?}");
            } else if x.len() > 1 {
                // within 64 ulp on the mean: a renormalisation moves the underlying sum by <= 2 ulp, which exp / 1/x
                // of the geometric / harmonic means amplify by at most |ln G| resp. 1
                // (derivation: 2 ulp of the sum of logarithms is a relative 2^-51 |ln G| on G, i.e. <= 4 |ln G| ulp of G;
                // with data scaled as a whole by 2^±45, |ln G| reaches 30 and more)
                let allowed: u64 = if ty.starts_with("Geometric") && y[1].is_finite() && y[1] > 0.0 { (16.0 + 8.0 * y[1].ln().abs()).max(64.0) as u64 } else { 64 };
                ensure!(same_obs(&x[..2], &y[..2], allowed), format!("C09/{ty}/empty_not_neutral"), "{opname} with an empty operand moved the mean by more than {allowed} ulp: {y:?} -> {x:?}");
            }
            if o.model.len() >= S::min_query() {
                let mut scratch = crate::engine::Obs::new(std::sync::Arc::new(crate::engine::Known::default()));
                r.check(&o.model, 1, &conf, 0.5, ty, &mut scratch).map_err(|f| crate::engine::Fail { sig: format!("C09/{ty}/empty_not_neutral"), msg: format!("after {opname} with an empty operand: {}", f.msg) })?;
            }
        }
        None => {
            if a.model.len() >= 2 && b.model.len() >= 2 {
                *merges_nonempty += 1;
            }
        }
    }
    Ok(())
}

pub fn program_case(p: &Program, obs: &mut Obs) -> PResult {
    match p.ty.as_str() {
        "Arithmetic<f64>" => interpret::<AArith<f64>>(p, obs),
        "Arithmetic<f32>" => interpret::<AArith<f32>>(p, obs),
        "Geometric<f64>" => interpret::<AGeo<f64>>(p, obs),
        "Geometric<f32>" => interpret::<AGeo<f32>>(p, obs),
        "Harmonic<f64>" => interpret::<AHar<f64>>(p, obs),
        "Harmonic<f32>" => interpret::<AHar<f32>>(p, obs),
        "Paired<f64>" => interpret::<APaired<f64>>(p, obs),
        "Paired<f32>" => interpret::<APaired<f32>>(p, obs),
        "Unpaired<f64>" => interpret::<AUnpaired<f64>>(p, obs),
        "Unpaired<f32>" => interpret::<AUnpaired<f32>>(p, obs),
        "proportion::Stats" => interpret::<AProp>(p, obs),
        "quantile::Stats" => interpret::<AQuant>(p, obs),
        t => crate::engine::fail("INFRA/harness_panic", format!("unknown type {t}")),
    }
}

// generators ------------------------------------------------------------------------------------------

fn item(ty_idx: usize) -> impl Strategy<Value = Item> {
    let f32_ = matches!(ty_idx, 1 | 3 | 5 | 10 | 11);
    let positive = matches!(ty_idx, 2 | 3 | 4 | 5);
    (0u32..4, -(1i32 << 16)..=(1i32 << 16), -(1i32 << 16)..=(1i32 << 16), any::<bool>()).prop_map(move |(kc, a, b, flag)| {
        let kappa: f64 = [0.0, 1.0, 8.0, 100.0][kc as usize];
        let kappa = if f32_ { kappa.min(8.0) } else { kappa };
        // a fifth of the real-valued items are small integers of either sign (powers of two for the positive types): partial
        // sums then tie exactly, also with opposite signs, which generic reals never do
        let small = flag && (a & 3) == 0;
        let mk = |r: i32| {
            let v = if small {
                if positive {
                    crate::fl::pow2((r >> 2).rem_euclid(5) - 2)
                } else {
                    ((r >> 2).rem_euclid(7) - 3) as f64
                }
            } else if positive {
                (2f64).powf(r as f64 / 65536.0 * 3.0) * (1.0 + kappa)
            } else {
                kappa + r as f64 / 65536.0
            };
            if f32_ {
                (v as f32) as f64
            } else {
                v
            }
        };
        Item { x: X(mk(a)), y: X(mk(b) * 0.5), flag }
    })
}
fn op(ty_idx: usize) -> impl Strategy<Value = Op> {
    let s = || 0u8..4;
    prop_oneof![
        1 => s().prop_map(|dst| Op::New { dst }),
        4 => (s(), item(ty_idx)).prop_map(|(dst, it)| Op::Append { dst, it }),
        4 => (s(), prop::collection::vec(item(ty_idx), 0..12)).prop_map(|(dst, its)| Op::Extend { dst, its }),
        2 => (s(), prop::collection::vec(item(ty_idx), 0..12)).prop_map(|(dst, its)| Op::FromIter { dst, its }),
        1 => (s(), s()).prop_map(|(dst, src)| Op::Copy { dst, src }),
        4 => (s(), s(), s()).prop_map(|(dst, a, b)| Op::Add { dst, a, b }),
        3 => (s(), s()).prop_map(|(dst, src)| Op::AddAssign { dst, src }),
        3 => (s(), crate::gen::conf(), 1u32..1000).prop_map(|(slot, conf, q)| Op::Query { slot, conf, q: X(q as f64 / 1000.0) }),
    ]
}
/// scale every observation of an item by 2^e (exact)
fn scale_item(it: &Item, e: i32) -> Item {
    let s = crate::fl::pow2(e);
    Item { x: X(it.x.0 * s), y: X(it.y.0 * s), flag: it.flag }
}
fn scale_ops(ops: Vec<Op>, e: i32) -> Vec<Op> {
    if e == 0 {
        return ops;
    }
    ops.into_iter()
        .map(|o| match o {
            Op::Append { dst, it } => Op::Append { dst, it: scale_item(&it, e) },
            Op::Extend { dst, its } => Op::Extend { dst, its: its.iter().map(|i| scale_item(i, e)).collect() },
            Op::FromIter { dst, its } => Op::FromIter { dst, its: its.iter().map(|i| scale_item(i, e)).collect() },
            o => o,
        })
        .collect()
}
/// whole-program magnitude: 60 % unit scale, 40 % a power of two down to 2^-45 / up to 2^45 (f32: 2^±14), so that
/// registers (sums, sums of squares) are far below / above 1 while the data stay well inside the normal range
fn program_scale(t: usize) -> impl Strategy<Value = i32> {
    let f32_ = matches!(t, 1 | 3 | 5 | 10 | 11);
    let lim = if f32_ { 14 } else { 45 };
    prop_oneof![6 => Just(0i32), 3 => -lim..=-1i32, 1 => 1..=lim]
}
pub fn program(max_ops: usize) -> impl Strategy<Value = Program> {
    (0usize..TYPES.len()).prop_flat_map(move |t| (prop::collection::vec(op(t), 0..=max_ops), program_scale(t)).prop_map(move |(ops, e)| Program { ty: TYPES[t].to_string(), ops: scale_ops(ops, e) }))
}

// all binary merge trees over <= 6 chunks ----------------------------------------------------------------

#[derive(Clone, Debug, Serialize, Deserialize)]
pub enum Tree {
    Leaf(usize),
    Node(Box<Tree>, Box<Tree>),
}
fn all_trees(lo: usize, hi: usize) -> Vec<Tree> {
    if hi - lo == 1 {
        return vec![Tree::Leaf(lo)];
    }
    let mut v = vec![];
    for m in lo + 1..hi {
        for l in all_trees(lo, m) {
            for r in all_trees(m, hi) {
                v.push(Tree::Node(Box::new(l.clone()), Box::new(r)));
            }
        }
    }
    v
}
#[derive(Clone, Debug, Serialize, Deserialize)]
pub struct TreeCase {
    pub ty: String,
    pub chunks: Vec<Vec<Item>>,
    pub tree: Tree,
    /// swap the operands of every `+` (the tree is then evaluated right-to-left)
    pub swap: bool,
}
fn eval_tree<S: Acc>(t: &Tree, chunks: &[Vec<Item>], swap: bool, alt: &mut u32) -> Result<(S, Vec<Item>, u32), String> {
    match t {
        Tree::Leaf(i) => Ok((S::from_items(&chunks[*i])?, chunks[*i].clone(), 0)),
        Tree::Node(l, r) => {
            let (sl, ml, dl) = eval_tree::<S>(l, chunks, swap, alt)?;
            let (sr, mr, dr) = eval_tree::<S>(r, chunks, swap, alt)?;
            *alt += 1;
            let (a, b, mut m, m2) = if swap { (sr, sl, mr, ml) } else { (sl, sr, ml, mr) };
            m.extend(m2);
            let s = if *alt % 2 == 0 {
                S::plus(&a, &b)
            } else {
                let mut x = a.clone();
                x.plus_assign(&b);
                x
            };
            Ok((s, m, dl.max(dr) + 1))
        }
    }
}
pub fn tree_case(c: &TreeCase, obs: &mut Obs) -> PResult {
    fn go<S: Acc>(c: &TreeCase, obs: &mut Obs) -> PResult {
        let mut alt = 0;
        obs.eval();
        let (s, m, _d) = eval_tree::<S>(&c.tree, &c.chunks, c.swap, &mut alt).map_err(|e| crate::engine::Fail { sig: "C09/tree/op_failed".into(), msg: e })?;
        ensure!(s.count() == m.len(), format!("C09/{}/sample_count", c.ty), "merge tree {:?}: count {} for {} observations", c.tree, s.count(), m.len());
        if m.len() >= S::min_query() {
            for conf in [Conf::new(0, 0.95), Conf::new(1, 0.3), Conf::new(2, 0.99)] {
                s.check(&m, 1, &conf, 0.4, &c.ty, obs)?;
            }
        }
        obs.class(&format!("tree/{}", c.ty));
        if c.chunks.iter().any(|x| x.is_empty()) {
            obs.class("tree/with-empty-chunk");
        }
        obs.nontrivial(&crate::engine::hash_of(&serde_json::to_string(c).unwrap_or_default()));
        Ok(())
    }
    match c.ty.as_str() {
        "Arithmetic<f64>" => go::<AArith<f64>>(c, obs),
        "Arithmetic<f32>" => go::<AArith<f32>>(c, obs),
        "Geometric<f64>" => go::<AGeo<f64>>(c, obs),
        "Harmonic<f32>" => go::<AHar<f32>>(c, obs),
        "Paired<f64>" => go::<APaired<f64>>(c, obs),
        "Paired<f32>" => go::<APaired<f32>>(c, obs),
        "Unpaired<f64>" => go::<AUnpaired<f64>>(c, obs),
        "Unpaired<f32>" => go::<AUnpaired<f32>>(c, obs),
        "proportion::Stats" => go::<AProp>(c, obs),
        "quantile::Stats" => go::<AQuant>(c, obs),
        t => crate::engine::fail("INFRA/harness_panic", format!("unknown type {t}")),
    }
}

// long folds onto a dominant accumulator --------------------------------------------------------------------

/// One very large observation followed by many merges of small partial states (each far below one unit of rounding
/// of the accumulated sum): every single merge is invisible, the multiset's statistics are not.
#[derive(Clone, Debug, Serialize, Deserialize)]
pub struct FoldCase {
    pub ty: String,
    pub head: Item,
    pub parts: Vec<Vec<Item>>,
    /// 0: acc = acc + part, 1: acc = part + acc, 2: acc += part, 3: alternating
    pub order: u8,
}
pub fn fold_case(c: &FoldCase, obs: &mut Obs) -> PResult {
    fn go<S: Acc>(c: &FoldCase, obs: &mut Obs) -> PResult {
        let fail = |e: String| crate::engine::Fail { sig: "C09/long_fold/op_failed".into(), msg: e };
        let mut acc = S::from_items(std::slice::from_ref(&c.head)).map_err(fail)?;
        let mut model = vec![c.head.clone()];
        for (i, p) in c.parts.iter().enumerate() {
            let part = S::from_items(p).map_err(fail)?;
            obs.eval();
            match if c.order == 3 { (i % 3) as u8 } else { c.order } {
                0 => acc = S::plus(&acc, &part),
                1 => acc = S::plus(&part, &acc),
                _ => acc.plus_assign(&part),
            }
            model.extend(p.iter().cloned());
        }
        ensure!(acc.count() == model.len(), format!("C09/{}/sample_count", c.ty), "long fold: count {} for {} observations", acc.count(), model.len());
        for conf in [Conf::new(0, 0.95), Conf::new(2, 0.9)] {
            acc.check(&model, 2, &conf, 0.4, &c.ty, obs)?;
        }
        obs.class(&format!("long_fold/{}", c.ty));
        obs.nontrivial(&crate::engine::hash_of(&serde_json::to_string(c).unwrap_or_default()));
        Ok(())
    }
    match c.ty.as_str() {
        "Arithmetic<f64>" => go::<AArith<f64>>(c, obs),
        "Arithmetic<f32>" => go::<AArith<f32>>(c, obs),
        "Harmonic<f32>" => go::<AHar<f32>>(c, obs),
        "Paired<f64>" => go::<APaired<f64>>(c, obs),
        "Paired<f32>" => go::<APaired<f32>>(c, obs),
        "Unpaired<f64>" => go::<AUnpaired<f64>>(c, obs),
        "Unpaired<f32>" => go::<AUnpaired<f32>>(c, obs),
        t => crate::engine::fail("INFRA/harness_panic", format!("unknown type {t}")),
    }
}
pub fn fold_strategy() -> impl Strategy<Value = FoldCase> {
    let tys = ["Arithmetic<f64>", "Arithmetic<f32>", "Harmonic<f32>", "Paired<f64>", "Paired<f32>", "Unpaired<f64>", "Unpaired<f32>"];
    (0usize..tys.len(), 0u8..4, 0i32..6, any::<bool>()).prop_flat_map(move |(t, order, extra, neg)| {
        let ty = tys[t];
        let ty_idx = TYPES.iter().position(|x| *x == ty).unwrap();
        let f32_ = ty.contains("f32");
        (prop::collection::vec(prop::collection::vec(item(ty_idx), 1..=3), 128..=512), item(ty_idx)).prop_map(move |(parts, h)| {
            // the head dominates the running sum by 2^26 … 2^31 (f32) / 2^55 … 2^60 (f64); for the harmonic mean it is the
            // reciprocal that dominates
            let e = if f32_ { 26 } else { 55 } + extra;
            let big = crate::fl::pow2(e) * (1.0 + h.x.0.abs() / 64.0).min(1.5) * if neg && !ty.starts_with("Harmonic") { -1.0 } else { 1.0 };
            let cast = |v: f64| if f32_ { (v as f32) as f64 } else { v };
            let head = if ty.starts_with("Harmonic") { Item { x: X(cast(1.0 / big)), y: X(cast(1.0 / big)), flag: h.flag } } else { Item { x: X(cast(big)), y: X(0.0), flag: h.flag } };
            FoldCase { ty: ty.to_string(), head, parts, order }
        })
    })
}

// parallel reduce ------------------------------------------------------------------------------------------

#[derive(Clone, Debug, Serialize, Deserialize)]
pub struct ParCase {
    pub f32: bool,
    pub n: usize,
    pub seed: u64,
    pub threads: usize,
    /// true: rayon recipe of the README; false: chunked std::thread::scope reduce
    pub rayon: bool,
}
pub fn par_case(c: &ParCase, obs: &mut Obs) -> PResult {
    fn go<F: Fl>(c: &ParCase, obs: &mut Obs) -> PResult {
        fn assert_plain<T: Send + Sync + Copy>() {}
        assert_plain::<Arithmetic<F>>();
        let mut g = crate::engine::SplitMix(c.seed);
        let data: Vec<F> = (0..c.n).map(|_| F::from64(3.0 + g.unit() * 4.0 + if g.next() % 50 == 0 { 40.0 } else { 0.0 })).collect();
        obs.eval();
        let state: Arithmetic<F> = if c.rayon {
            let pool = rayon::ThreadPoolBuilder::new().num_threads(c.threads).build().map_err(|e| crate::engine::Fail { sig: "INFRA/harness_panic".into(), msg: e.to_string() })?;
            pool.install(|| data.par_iter().map(|&x| <Arithmetic<F> as StatisticsOps<F>>::from_iter(&[x]).unwrap()).reduce(|| Arithmetic::<F>::new(), |s1, s2| s1 + s2))
        } else {
            let chunk = (c.n + c.threads - 1) / c.threads.max(1);
            let partials: Vec<Arithmetic<F>> = std::thread::scope(|s| {
                let hs: Vec<_> = data.chunks(chunk.max(1)).map(|ch| s.spawn(move || <Arithmetic<F> as StatisticsOps<F>>::from_iter(&ch.to_vec()).unwrap())).collect();
                hs.into_iter().map(|h| h.join().unwrap()).collect()
            });
            // fold in both directions alternately
            let mut tot = Arithmetic::<F>::new();
            for (i, p) in partials.into_iter().enumerate() {
                if i % 2 == 0 {
                    tot = tot + p;
                } else {
                    tot = p + tot;
                }
            }
            tot
        };
        let d: Vec<f64> = data.iter().map(|x| x.to64()).collect();
        let conf = Conf::new(0, 0.95);
        let ty = format!("parallel/{}/{}", if c.rayon { "rayon" } else { "thread-scope" }, F::NAME);
        check_mean_state::<F>("parallel", &ty, &d, state.sample_count(), state.sample_mean().to64(), Some(state.sample_variance().to64()), call(|| state.ci_mean(conf.get())), &conf, 1, obs)?;
        obs.class(&format!("{ty}/threads={}", c.threads));
        obs.nontrivial(&(c.f32, c.n, c.seed, c.threads, c.rayon));
        Ok(())
    }
    if c.f32 {
        go::<f32>(c, obs)
    } else {
        go::<f64>(c, obs)
    }
}

pub fn run(run: &mut Run) {
    run.technique = "model-based (stateful) property testing: proptest-generated programs over a register file interpreted on the real types and on a multiset model with exact statistics; exhaustive enumeration of all binary merge trees over <= 6 chunks; real rayon / thread reductions".into();
    run.rule = "programs of up to 40 ops (data at unit scale or scaled as a whole by a power of two down to 2^-45 / up to 2^45) over {New, Append, Extend, FromIter, Copy, Add, AddAssign, Query} on 4 slots for 12 state types; after every step the count equals the model's, at every query mean / variance / CI are within the rounding tolerance of the exact statistics of the model multiset (proportion / quantile states: equal to the component-wise sums, ci bit-identical), queries leave every Debug image unchanged and repeat identically, an empty operand is neutral; all 65 merge-tree shapes over 1..6 chunks x 3 chunkings (with empty chunks) x both operand orders; folds of 128…512 small partial states onto an accumulator holding one observation 2^26…2^31 (f64: 2^55…2^60) times larger, in four operand orders; rayon and thread-scope reductions with 1, 2, 7, 16 threads; non-trivial = a program with a merge of two multi-element states, a merge with an empty operand, or a query between updates".into();
    crate::meanref::selftest_into(run);
    let (cases, shards, max_ops) = match run.tier {
        crate::engine::Tier::Quick => (30_000u32, 32usize, 40usize),
        crate::engine::Tier::Thorough => (2_000_000, 256, 60),
    };
    let seed = run.seed_for("programs", 0);
    run.par(shards, |shard, obs| {
        crate::engine::prop_on(obs, "program", cases / shards as u32, crate::engine::mix(seed, "shard", shard as u64), program(max_ops), program_case);
    });
    // all merge trees
    let tree_types = ["Arithmetic<f64>", "Arithmetic<f32>", "Geometric<f64>", "Harmonic<f32>", "Paired<f64>", "Paired<f32>", "Unpaired<f64>", "Unpaired<f32>", "proportion::Stats", "quantile::Stats"];
    let mut jobs: Vec<TreeCase> = vec![];
    for (ti, ty) in tree_types.iter().enumerate() {
        let ty_idx = TYPES.iter().position(|t| t == ty).unwrap();
        let items0: Vec<Item> = crate::engine::draw(&prop::collection::vec(item(ty_idx), 40..=40), run.seed_for("tree_items", ti as u64), 1).pop().unwrap();
        // at unit scale and with every register far below one unit of rounding of 1 (2^-34, f32: 2^-14)
        let tiny = if ty.contains("f32") { -14 } else { -34 };
        // third variant (escale = 1): 1, -1, 2, -2, 3, ... — the partial sums of neighbouring chunks are exact negatives
        for escale in [0, tiny, 1] {
        if escale != 0 && (!ty.contains("<f") || ((ty.starts_with("Geometric") || ty.starts_with("Harmonic")) && escale == 1)) {
            continue;
        }
        let items: Vec<Item> = if escale == 1 {
            (0..40).map(|i| Item { x: X(((i / 2 + 1) as f64) * if i % 2 == 0 { 1.0 } else { -1.0 }), y: X(0.0), flag: i % 3 == 0 }).collect()
        } else {
            items0.iter().map(|i| scale_item(i, escale)).collect()
        };
        for m in 1..=6usize {
            for chunking in 0..3 {
                // sizes: equal, ramp, with empty chunks
                let sizes: Vec<usize> = (0..m)
                    .map(|i| match chunking {
                        0 => 5,
                        1 => 1 + i * 2,
                        _ => {
                            if i % 2 == 1 {
                                0
                            } else {
                                3 + i
                            }
                        }
                    })
                    .collect();
                let mut chunks = vec![];
                let mut pos = 0;
                for s in sizes {
                    chunks.push(items[pos..(pos + s).min(items.len())].to_vec());
                    pos += s;
                }
                for tree in all_trees(0, m) {
                    for swap in [false, true] {
                        jobs.push(TreeCase { ty: ty.to_string(), chunks: chunks.clone(), tree: tree.clone(), swap });
                    }
                }
            }
        }
        }
    }
    let jobs_ref = &jobs;
    run.par(jobs.len(), |j, obs| {
        crate::engine::case_on(obs, "tree", &jobs_ref[j], tree_case);
    });
    run.exhaustive_parts.push("all binary merge-tree shapes over 1..6 chunks (1+1+2+5+14+42 = 65) x 3 chunkings x 2 operand orders x 10 state types (floating-point types at unit scale, at 2^-34 / 2^-14, and on the alternating integers 1, -1, 2, -2, … whose chunk sums cancel exactly)".into());
    // long folds onto a dominant accumulator
    {
        let cases = run.tier.pick(1_500u32, 60_000);
        let seed = run.seed_for("long_fold", 0);
        run.par(16, |shard, obs| {
            crate::engine::prop_on(obs, "long_fold", cases / 16, crate::engine::mix(seed, "shard", shard as u64), fold_strategy(), fold_case);
        });
        run.require_class("long_fold/Arithmetic<f32>");
        run.require_class("long_fold/Unpaired<f64>");
    }
    // parallel reductions
    let n_par = run.tier.pick(20_000usize, 300_000);
    let mut pj = vec![];
    for (i, &threads) in [1usize, 2, 7, 16].iter().enumerate() {
        for rayon in [true, false] {
            for f32_ in [false, true] {
                pj.push(ParCase { f32: f32_, n: n_par + i * 17, seed: run.seed_for("par", (i * 4 + rayon as usize * 2 + f32_ as usize) as u64), threads, rayon });
            }
        }
    }
    for c in &pj {
        run.case("parallel", c, par_case);
    }
    for t in TYPES {
        run.require_class(&format!("program/{t}"));
    }
    for c in ["merge-with-empty-operand", "query-between-updates", "merge-of-nonempty/Arithmetic<f64>", "merge-of-nonempty/Unpaired<f64>", "merge-of-nonempty/proportion::Stats", "tree/with-empty-chunk", "tree/Unpaired<f64>"] {
        run.require_class(c);
    }
    run.assumptions.push("states are plain Copy/Clone values without shared or interior-mutable parts (Send + Sync + Copy asserted for Arithmetic), so a thread schedule can only select a reduction tree; tree shapes are enumerated exhaustively up to 6 chunks and the oracle is shape independent. A future change introducing shared state would not be seen by this argument.".into());
    run.assumptions.push("'equal up to rounding' is checked against the exact statistics of the multiset with the tolerances of DESIGN §4.2 at merge depth 1".into());
    let _ = guard(|| ());
}

pub fn replay(sub: &str, v: &Value, obs: &mut Obs) -> Option<PResult> {
    Some(match sub {
        "program" => program_case(&de(v), obs),
        "long_fold" => fold_case(&de(v), obs),
        "tree" => tree_case(&de(v), obs),
        "parallel" => par_case(&de(v), obs),
        _ => return None,
    })
}
