//! One module per property. Each exposes `run(&mut Run)` and `replay(sub, input, obs)`.

use crate::engine::{Obs, PResult, Run};
use serde::de::DeserializeOwned;
use serde_json::Value;

pub mod c01;
pub mod c02;
pub mod c03;
pub mod c04;
pub mod c05;
pub mod c06;
pub mod c07;
pub mod c08;
pub mod c09;
pub mod c10;
pub mod c11;
pub mod c12;
pub mod c13;
pub mod c14;
pub mod c15;
pub mod c16;
pub mod c17;
pub mod c18;
pub mod c19;
pub mod history;

pub struct Entry {
    pub id: &'static str,
    pub run: fn(&mut Run),
    pub replay: fn(&str, &Value, &mut Obs) -> Option<PResult>,
}

pub fn lookup(id: &str) -> Option<Entry> {
    let e = match id {
        "C01" => Entry { id: "C01", run: c01::run, replay: c01::replay },
        "C02" => Entry { id: "C02", run: c02::run, replay: c02::replay },
        "C03" => Entry { id: "C03", run: c03::run, replay: c03::replay },
        "C04" => Entry { id: "C04", run: c04::run, replay: c04::replay },
        "C05" => Entry { id: "C05", run: c05::run, replay: c05::replay },
        "C06" => Entry { id: "C06", run: c06::run, replay: c06::replay },
        "C07" => Entry { id: "C07", run: c07::run, replay: c07::replay },
        "C08" => Entry { id: "C08", run: c08::run, replay: c08::replay },
        "C09" => Entry { id: "C09", run: c09::run, replay: c09::replay },
        "C10" => Entry { id: "C10", run: c10::run, replay: c10::replay },
        "C11" => Entry { id: "C11", run: c11::run, replay: c11::replay },
        "C12" => Entry { id: "C12", run: c12::run, replay: c12::replay },
        "C13" => Entry { id: "C13", run: c13::run, replay: c13::replay },
        "C14" => Entry { id: "C14", run: c14::run, replay: c14::replay },
        "C15" => Entry { id: "C15", run: c15::run, replay: c15::replay },
        "C16" => Entry { id: "C16", run: c16::run, replay: c16::replay },
        "C17" => Entry { id: "C17", run: c17::run, replay: c17::replay },
        "C18" => Entry { id: "C18", run: c18::run, replay: c18::replay },
        "C19" => Entry { id: "C19", run: c19::run, replay: c19::replay },
        _ => return None,
    };
    Some(e)
}

/// deserialise a replay input
pub fn de<T: DeserializeOwned>(v: &Value) -> T {
    serde_json::from_value(v.clone()).unwrap_or_else(|e| {
        println!("INCONCLUSIVE: replay input does not parse: {e}");
        std::process::exit(2)
    })
}

pub fn replay(entry: &Entry, path: &str) -> i32 {
    let text = match std::fs::read_to_string(path) {
        Ok(t) => t,
        Err(e) => {
            println!("INCONCLUSIVE: cannot read {path}: {e}");
            return 2;
        }
    };
    let v: Value = match serde_json::from_str(&text) {
        Ok(v) => v,
        Err(e) => {
            println!("INCONCLUSIVE: {path} is not JSON: {e}");
            return 2;
        }
    };
    let sub = v["sub"].as_str().unwrap_or("").to_string();
    // strict mode: known findings are not tolerated in a replay
    let mut obs = Obs::new(std::sync::Arc::new(crate::engine::Known::default()));
    let r = crate::engine::guard(|| (entry.replay)(&sub, &v["input"], &mut obs));
    match r {
        Ok(Some(Ok(()))) => {
            println!("replay {}: property holds on this input (sub-check {sub})", entry.id);
            0
        }
        Ok(Some(Err(f))) => {
            println!("replay {}: {}: {}", entry.id, f.sig, f.msg);
            println!("VIOLATION property={} replay={}", entry.id, path);
            1
        }
        Ok(None) => {
            println!("INCONCLUSIVE: unknown sub-check '{sub}' for {}", entry.id);
            2
        }
        Err(p) => {
            println!("replay {}: uncaught panic: {p}", entry.id);
            println!("VIOLATION property={} replay={}", entry.id, path);
            1
        }
    }
}
