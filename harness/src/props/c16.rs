//! C16 — mean/comparison CIs are equivariant under scaling, negation, shift, reordering.

use crate::engine::{Obs, PResult, Run};
use crate::fl::{pow2, Fl};
use crate::gen::{self, Sample};
use crate::meanref::{crit_candidates, MeanRef};
use crate::model::{bounds, call, Conf, Out};
use crate::props::c04::unpaired_ref;
use crate::props::de;
use proptest::prelude::*;
use serde::{Deserialize, Serialize};
use serde_json::{json, Value};
use stats_ci::comparison::{Paired, Unpaired};
use stats_ci::mean::{Arithmetic, Geometric, Harmonic};
use stats_ci::Interval;

#[derive(Clone, Debug, Serialize, Deserialize)]
pub struct Case {
    pub a: Sample,
    pub b: Sample,
    /// strictly positive sample for geometric / harmonic
    pub p: Sample,
    pub conf: Conf,
    /// requested exponent of the power-of-two scale (clamped to the safe range of the data)
    pub e: i32,
    /// shift = shift_code * 2^(shift_exp) relative to the data scale
    pub shift_code: i32,
    pub perm: Vec<u16>,
}

fn to_f<F: Fl>(s: &Sample) -> Vec<F> {
    s.data.iter().map(|x| F::from64(x.0)).collect()
}
fn arith<F: Fl>(conf: &Conf, d: &Vec<F>) -> Out<Interval<F>> {
    call(|| Arithmetic::<F>::ci(conf.get(), d))
}
fn paired<F: Fl>(conf: &Conf, a: &Vec<F>, b: &Vec<F>) -> Out<Interval<F>> {
    call(|| Paired::<F>::ci(conf.get(), a, b))
}
fn unpaired<F: Fl>(conf: &Conf, a: &Vec<F>, b: &Vec<F>) -> Out<Interval<F>> {
    call(|| Unpaired::<F>::ci(conf.get(), a, b))
}

/// safe exponent range for power-of-two scaling of `data` (DESIGN C16); None when the data themselves are outside it
fn safe_e<F: Fl>(datasets: &[&Vec<F>], want: i32) -> Option<i32> {
    let (lo_lim, hi_lim) = if F::IS32 { (-25, 25) } else { (-200, 200) };
    let mut emin = i32::MAX;
    let mut emax = i32::MIN;
    for d in datasets {
        for x in d.iter() {
            let v = x.to64().abs();
            if v != 0.0 {
                let e = v.log2().floor() as i32;
                emin = emin.min(e);
                emax = emax.max(e + 1);
            }
        }
    }
    if emin == i32::MAX {
        return Some(want.clamp(lo_lim, hi_lim));
    }
    if emin < lo_lim || emax > hi_lim {
        return None;
    }
    let lo = lo_lim - emin;
    let hi = hi_lim - emax;
    if lo > hi {
        return None;
    }
    Some(want.clamp(lo, hi))
}
/// the variance-level quantities stay in the normal range under the scaling
fn var_safe<F: Fl>(var: f64, n: usize, e: i32, fourth_power: bool) -> bool {
    if var == 0.0 {
        return true;
    }
    let floor = if F::IS32 { pow2(-100) } else { pow2(-900) };
    let ceil = if F::IS32 { pow2(100) } else { pow2(900) };
    let t = var / n as f64;
    let s = pow2(2 * e);
    let ok = |v: f64| v >= floor && v <= ceil;
    if fourth_power {
        ok(t * t) && ok(t * t * s * s) && ok(var) && ok(var * s)
    } else {
        ok(t) && ok(t * s) && ok(var) && ok(var * s)
    }
}

fn scaled_eq<F: Fl>(base: &Interval<F>, scaled: &Interval<F>, e: i32, max_ulps: u64) -> Result<u64, String> {
    let (k0, l0, h0) = bounds(base);
    let (k1, l1, h1) = bounds(scaled);
    if k0 != k1 {
        return Err(format!("kinds differ: {base:?} vs {scaled:?}"));
    }
    let s = pow2(e);
    let u = |x: f64, y: f64| if x.is_infinite() || y.is_infinite() { if x == y { 0 } else { u64::MAX } } else { F::ulps_between(F::from64(x), F::from64(y)) };
    let d = u(l0 * s, l1).max(u(h0 * s, h1));
    if d <= max_ulps {
        Ok(d)
    } else {
        Err(format!("{base:?} scaled by 2^{e} should be [{:e}, {:e}] but the interval of the scaled data is {scaled:?} ({d} ulp apart)", l0 * s, h0 * s))
    }
}
fn negated_eq<F: Fl>(base_flipped: &Interval<F>, neg: &Interval<F>) -> Result<(), String> {
    let (k0, l0, h0) = bounds(base_flipped);
    let (k1, l1, h1) = bounds(neg);
    let want_kind = [0u8, 2, 1][k0 as usize];
    if k1 != want_kind {
        return Err(format!("negating the data turns CI(flipped) = {base_flipped:?} into {neg:?}: one-sidedness must be exchanged"));
    }
    if (-h0).to_bits() != l1.to_bits() && !(h0 == 0.0 && l1 == 0.0) || (-l0).to_bits() != h1.to_bits() && !(l0 == 0.0 && h1 == 0.0) {
        return Err(format!("CI(c, -x) = {neg:?} is not the exact mirror image of CI(c.flipped(), x) = {base_flipped:?}"));
    }
    Ok(())
}

fn case_generic<F: Fl>(c: &Case, obs: &mut Obs) -> PResult {
    let a: Vec<F> = to_f::<F>(&c.a);
    let b_full: Vec<F> = to_f::<F>(&c.b);
    let m = a.len().min(b_full.len());
    let (ap, bp): (Vec<F>, Vec<F>) = (a[..m].to_vec(), b_full[..m].to_vec());
    let kn = c.conf.kind_name();
    obs.eval();
    obs.class(&format!("{}/{}", F::NAME, kn));
    let ra = MeanRef::new(&c.a.v64());
    let rb = MeanRef::new(&c.b.v64());
    let base_a = arith::<F>(&c.conf, &a);
    let base_u = unpaired::<F>(&c.conf, &a, &b_full);
    let base_p = paired::<F>(&c.conf, &ap, &bp);
    let (Out::Ok(ia), Out::Ok(iu), Out::Ok(ip)) = (&base_a, &base_u, &base_p) else {
        return crate::engine::fail("C16/rejected_valid_data", format!("arithmetic {}, unpaired {}, paired {}", base_a.describe(), base_u.describe(), base_p.describe()));
    };

    // ---------- scaling by 2^e
    match safe_e::<F>(&[&a, &b_full], c.e) {
        None => obs.exclude("scaling: data outside the magnitude range in which scaling is exact"),
        Some(e) if e == 0 => obs.class("scaling/e=0 (trivial)"),
        Some(e) => {
            let s = F::from64(pow2(e));
            let sc = |d: &Vec<F>| -> Vec<F> { d.iter().map(|x| *x * s).collect() };
            obs.evals(3);
            let (sa, sb) = (sc(&a), sc(&b_full));
            if var_safe::<F>(ra.var, ra.n, e, false) {
                match arith::<F>(&c.conf, &sa) {
                    Out::Ok(i) => {
                        if let Err(msg) = scaled_eq::<F>(ia, &i, e, 0) {
                            return crate::engine::fail(format!("C16/scaling/arithmetic/{kn}"), format!("{}: {msg}", F::NAME));
                        }
                    }
                    o => return crate::engine::fail("C16/scaling/arithmetic/rejected", o.describe()),
                }
                obs.class("scaling/arithmetic/bit-exact");
                obs.nontrivial(&("scale-a", F::IS32, e, c.conf.kind, c.conf.l().to_bits(), crate::engine::hash_of(&c.a.v64().iter().map(|x| x.to_bits()).collect::<Vec<_>>())));
            } else {
                obs.exclude("scaling: variance would leave the normal range");
            }
            // paired: differences scale exactly as well
            let dvar = {
                let d: Vec<f64> = ap.iter().zip(bp.iter()).map(|(x, y)| (*x - *y).to64()).collect();
                MeanRef::new(&d)
            };
            if var_safe::<F>(dvar.var, dvar.n, e, false) {
                match paired::<F>(&c.conf, &sc(&ap), &sc(&bp)) {
                    Out::Ok(i) => {
                        if let Err(msg) = scaled_eq::<F>(ip, &i, e, 0) {
                            return crate::engine::fail(format!("C16/scaling/paired/{kn}"), format!("{}: {msg}", F::NAME));
                        }
                    }
                    o => return crate::engine::fail("C16/scaling/paired/rejected", o.describe()),
                }
                obs.class("scaling/paired/bit-exact");
            }
            if var_safe::<F>(ra.var, ra.n, e, true) && var_safe::<F>(rb.var, rb.n, e, true) && !(ra.constant && rb.constant) && ra.var > 0.0 && rb.var > 0.0 {
                match unpaired::<F>(&c.conf, &sa, &sb) {
                    Out::Ok(i) => {
                        if let Err(msg) = scaled_eq::<F>(iu, &i, e, 0) {
                            return crate::engine::fail(format!("C16/scaling/unpaired/{kn}"), format!("{}: {msg}", F::NAME));
                        }
                    }
                    o => return crate::engine::fail("C16/scaling/unpaired/rejected", o.describe()),
                }
                obs.class("scaling/unpaired/bit-exact");
            } else {
                obs.exclude("scaling (unpaired): (s^2/n)^2 would leave the normal range, or a constant sample");
            }
        }
    }

    // ---------- scaling to the edges of the range ("all exponents that avoid overflow/underflow"): the largest e for
    // which n * max(x)^2 * 4^e stays 8 binades below the overflow threshold, and the smallest for which the squares
    // of the smallest non-zero observations (and the variance-level quantities) stay normal
    {
        let (emin, emax, n_all) = {
            let (mut lo, mut hi) = (i32::MAX, i32::MIN);
            for x in a.iter().chain(b_full.iter()) {
                let v = x.to64().abs();
                if v != 0.0 {
                    let e = v.log2().floor() as i32;
                    lo = lo.min(e);
                    hi = hi.max(e + 1);
                }
            }
            (lo, hi, a.len().max(b_full.len()).max(2) as f64)
        };
        let (max_exp, min_exp): (i32, i32) = if F::IS32 { (127, -126) } else { (1023, -1022) };
        // the base data themselves must be clear of underflow (squares and their compensation terms normal),
        // otherwise the base interval has already lost what the scaled one keeps
        if emin != i32::MAX && 2 * emin < min_exp + 60 {
            obs.exclude("scaling to the edges: the squares of the base data are already near or below the normal range");
        } else if emin != i32::MAX {
            let e_hi = ((max_exp - 8) as f64 - n_all.log2()).div_euclid(2.0) as i32 - emax;
            let e_lo: i32 = (min_exp + 8).div_euclid(2) - emin + 30;
            let wide_ok = |var: f64, n: usize, e: i32| -> bool {
                if var == 0.0 {
                    return true;
                }
                let lim = if F::IS32 { 110 } else { 990 };
                let ok = |v: f64| v >= pow2(-lim) && v <= pow2(lim);
                let s = pow2(2 * e);
                ok(var / n as f64 * s) && ok(var * s) && ok(var) && ok(var / n as f64)
            };
            let dvar = {
                let d: Vec<f64> = ap.iter().zip(bp.iter()).map(|(x, y)| (*x - *y).to64()).collect();
                MeanRef::new(&d)
            };
            for (which, e) in [("upper", e_hi), ("lower", e_lo)] {
                if e == 0 || (which == "upper" && e < 0) || (which == "lower" && e > 0) {
                    continue;
                }
                let s = F::from64(pow2(e));
                if !s.to64().is_finite() || s.to64() == 0.0 {
                    continue;
                }
                let sc = |d: &Vec<F>| -> Vec<F> { d.iter().map(|x| *x * s).collect() };
                if wide_ok(ra.var, ra.n, e) {
                    obs.eval();
                    match arith::<F>(&c.conf, &sc(&a)) {
                        Out::Ok(i) => {
                            if let Err(msg) = scaled_eq::<F>(ia, &i, e, 0) {
                                return crate::engine::fail(format!("C16/scaling_edge/arithmetic/{kn}"), format!("{} ({which} edge of the range): {msg}", F::NAME));
                            }
                            obs.class(&format!("scaling/edge-{which}/arithmetic"));
                        }
                        o => return crate::engine::fail("C16/scaling_edge/arithmetic/rejected", format!("{} scaled by 2^{e} ({which} edge): {}", F::NAME, o.describe())),
                    }
                }
                if wide_ok(dvar.var, dvar.n, e) && ap.len() >= 2 {
                    obs.eval();
                    match paired::<F>(&c.conf, &sc(&ap), &sc(&bp)) {
                        Out::Ok(i) => {
                            if let Err(msg) = scaled_eq::<F>(ip, &i, e, 0) {
                                return crate::engine::fail(format!("C16/scaling_edge/paired/{kn}"), format!("{} ({which} edge of the range): {msg}", F::NAME));
                            }
                            obs.class(&format!("scaling/edge-{which}/paired"));
                        }
                        o => return crate::engine::fail("C16/scaling_edge/paired/rejected", format!("{} scaled by 2^{e} ({which} edge): {}", F::NAME, o.describe())),
                    }
                }
            }
        }
    }

    // ---------- negation: CI(c, -x) = -mirror(CI(c.flipped(), x)), exactly
    {
        obs.evals(3);
        let neg = |d: &Vec<F>| -> Vec<F> { d.iter().map(|x| -*x).collect() };
        let fl = c.conf.flipped();
        for (name, base, negd) in [
            ("arithmetic", arith::<F>(&fl, &a), arith::<F>(&c.conf, &neg(&a))),
            ("paired", paired::<F>(&fl, &ap, &bp), paired::<F>(&c.conf, &neg(&ap), &neg(&bp))),
            ("unpaired", unpaired::<F>(&fl, &a, &b_full), unpaired::<F>(&c.conf, &neg(&a), &neg(&b_full))),
        ] {
            match (&base, &negd) {
                (Out::Ok(x), Out::Ok(y)) => {
                    if let Err(msg) = negated_eq::<F>(x, y) {
                        return crate::engine::fail(format!("C16/negation/{name}/{kn}"), format!("{}: {msg}", F::NAME));
                    }
                    // "exchanges upper and lower one-sidedness": both results must have the kind that was asked for
                    let (ky, _, _) = bounds(y);
                    ensure!(ky == c.conf.kind, format!("C16/negation/{name}/kind"), "{}: CI({:?}, -x) = {y:?} does not have the requested kind", F::NAME, c.conf);
                }
                (x, y) => return crate::engine::fail(format!("C16/negation/{name}/rejected"), format!("{} / {}", x.describe(), y.describe())),
            }
        }
        obs.class("negation/bit-exact");
        obs.nontrivial(&("neg", F::IS32, c.conf.kind, c.conf.l().to_bits(), crate::engine::hash_of(&c.a.v64().iter().map(|x| x.to_bits()).collect::<Vec<_>>())));
    }

    // ---------- negation and scaling commute with merge histories too (same tree on both sides)
    {
        use stats_ci::mean::StatisticsOps;
        let codes: Vec<u16> = c.perm.iter().copied().take(6).collect();
        let tree_a = |d: &Vec<F>, conf: &Conf| -> Out<Interval<F>> {
            let cuts = gen::cut_points(&codes, d.len());
            let conf = conf.get();
            call(|| {
                let mut acc = Arithmetic::<F>::new();
                for (i, ch) in gen::split_at(d, &cuts).into_iter().enumerate() {
                    let part = <Arithmetic<F> as StatisticsOps<F>>::from_iter(&ch.to_vec())?;
                    // left folds, right folds and += alternate with the low bits of the codes
                    match codes.get(i).map(|c| c & 3).unwrap_or(0) {
                        0 => acc = acc + part,
                        1 => acc = part + acc,
                        _ => acc += part,
                    }
                }
                acc.ci_mean(conf)
            })
        };
        let tree_p = |x: &Vec<F>, y: &Vec<F>, conf: &Conf| -> Out<Interval<F>> {
            let cuts = gen::cut_points(&codes, x.len());
            let conf = conf.get();
            call(|| {
                let mut acc = Paired::<F>::default();
                let (xs, ys) = (gen::split_at(x, &cuts), gen::split_at(y, &cuts));
                for (i, (cx, cy)) in xs.into_iter().zip(ys).enumerate() {
                    let mut part = Paired::<F>::default();
                    part.extend(&cx.to_vec(), &cy.to_vec())?;
                    match codes.get(i).map(|c| c & 3).unwrap_or(0) {
                        0 => acc = acc + part,
                        1 => acc = part + acc,
                        _ => acc += part,
                    }
                }
                acc.ci_mean(conf)
            })
        };
        let tree_u = |x: &Vec<F>, y: &Vec<F>, conf: &Conf| -> Out<Interval<F>> {
            let (cx, cy) = (gen::cut_points(&codes, x.len()), gen::cut_points(&codes, y.len()));
            let conf = conf.get();
            call(|| {
                let mut acc = Unpaired::<F>::default();
                let (xs, ys) = (gen::split_at(x, &cx), gen::split_at(y, &cy));
                for (i, (chx, chy)) in xs.into_iter().zip(ys).enumerate() {
                    let mut part = Unpaired::<F>::default();
                    part.extend(&chx.to_vec(), &chy.to_vec())?;
                    match codes.get(i).map(|c| c & 3).unwrap_or(0) {
                        0 => acc = acc + part,
                        1 => acc = part + acc,
                        _ => acc += part,
                    }
                }
                acc.ci_mean(conf)
            })
        };
        let neg = |d: &Vec<F>| -> Vec<F> { d.iter().map(|x| -*x).collect() };
        let fl = c.conf.flipped();
        obs.evals(3);
        let mut merged = 0;
        for (name, base, negd) in [
            ("arithmetic", tree_a(&a, &fl), tree_a(&neg(&a), &c.conf)),
            ("paired", tree_p(&ap, &bp, &fl), tree_p(&neg(&ap), &neg(&bp), &c.conf)),
            ("unpaired", tree_u(&a, &b_full, &fl), tree_u(&neg(&a), &neg(&b_full), &c.conf)),
        ] {
            match (&base, &negd) {
                (Out::Ok(x), Out::Ok(y)) => {
                    if let Err(msg) = negated_eq::<F>(x, y) {
                        return crate::engine::fail(format!("C16/negation_merged/{name}/{kn}"), format!("{} (same merge tree, cut codes {codes:?}): {msg}", F::NAME));
                    }
                    merged += 1;
                }
                (Out::Err(_), Out::Err(_)) => {}
                (x, y) => return crate::engine::fail(format!("C16/negation_merged/{name}/rejected"), format!("{} / {}", x.describe(), y.describe())),
            }
        }
        if merged > 0 && !codes.is_empty() && a.len() >= 4 {
            obs.class("negation/merge-history/bit-exact");
        }
        // scaling by 2^e through the same merge tree (arithmetic)
        if let Some(e) = safe_e::<F>(&[&a, &b_full], c.e) {
            if e != 0 && var_safe::<F>(ra.var, ra.n, e, false) {
                let s = F::from64(pow2(e));
                let sa: Vec<F> = a.iter().map(|x| *x * s).collect();
                if let (Out::Ok(x), Out::Ok(y)) = (tree_a(&a, &c.conf), tree_a(&sa, &c.conf)) {
                    if let Err(msg) = scaled_eq::<F>(&x, &y, e, 0) {
                        return crate::engine::fail(format!("C16/scaling_merged/arithmetic/{kn}"), format!("{} (same merge tree, cut codes {codes:?}): {msg}", F::NAME));
                    }
                    obs.class("scaling/merge-history/bit-exact");
                }
            }
        }
    }

    // ---------- reordering and shift (arithmetic): need the conditioning domain
    let dof = (ra.n - 1) as f64;
    if ra.conditioned::<F>(0) {
        let cr = crit_candidates(dof, &c.conf)[0];
        let tol_x = ra.tol_bound::<F>(&cr, ra.mean.abs() + cr.c.abs() * ra.se, 0);
        // reordering
        let pa = gen::permute(&a, &c.perm);
        let moved = pa.iter().zip(a.iter()).any(|(x, y)| x.bits64() != y.bits64());
        obs.eval();
        match arith::<F>(&c.conf, &pa) {
            Out::Ok(i) => {
                let (_, l0, h0) = bounds(ia);
                let (k1, l1, h1) = bounds(&i);
                ensure!(k1 == c.conf.kind, "C16/reorder/kind", "{i:?}");
                for (x, y) in [(l0, l1), (h0, h1)] {
                    if x.is_finite() {
                        let d = (x - y).abs();
                        ensure!(d <= 2.0 * tol_x, format!("C16/reorder/arithmetic/{kn}"), "{}: reordering the {} observations moves a bound from {x:e} to {y:e} (diff {d:e} > {:e})", F::NAME, ra.n, 2.0 * tol_x);
                        obs.headroom(&format!("reorder/{}", F::NAME), d / (2.0 * tol_x), || json!({"n": ra.n}));
                    }
                }
            }
            o => return crate::engine::fail("C16/reorder/rejected", o.describe()),
        }
        if moved && !ra.constant {
            obs.class("reorder/non-identity");
            obs.nontrivial(&("perm", F::IS32, c.conf.kind, c.conf.l().to_bits(), crate::engine::hash_of(&pa.iter().map(|x| x.bits64()).collect::<Vec<_>>())));
        }
        // unpaired: reorder within the first sample
        if rb.conditioned::<F>(0) {
            if let Some(ur) = unpaired_ref::<F>(&ra, &rb, &c.conf) {
                obs.eval();
                match unpaired::<F>(&c.conf, &pa, &b_full) {
                    Out::Ok(i) => {
                        let (_, l0, h0) = bounds(iu);
                        let (_, l1, h1) = bounds(&i);
                        for (x, y) in [(l0, l1), (h0, h1)] {
                            if x.is_finite() {
                                let d = (x - y).abs();
                                ensure!(d <= 2.0 * ur.tol, format!("C16/reorder/unpaired/{kn}"), "{}: reordering sample a moves an unpaired bound from {x:e} to {y:e} (diff {d:e} > {:e})", F::NAME, 2.0 * ur.tol);
                            }
                        }
                    }
                    o => return crate::engine::fail("C16/reorder/rejected", o.describe()),
                }
            }
        }
        // shift by a constant k (k on the scale of the spread, so that x + k stays conditioned)
        // (a non-dyadic multiple of the spread, so that x + k is rounded and exact ties between statistics are broken)
        let k = c.shift_code as f64 / 64.0 * ra.sd * 8.0 * 1.1;
        let kf = F::from64(k);
        if kf.to64() != 0.0 && kf.to64().is_finite() {
            let y: Vec<F> = a.iter().map(|x| *x + kf).collect();
            let y64: Vec<f64> = y.iter().map(|x| x.to64()).collect();
            let ry = MeanRef::new(&y64);
            // data at the top of the magnitude range: the shifted squares must still fit the float type
            let ymax = y64.iter().fold(0.0f64, |m, v| m.max(v.abs()));
            let fits = y64.iter().all(|v| v.is_finite()) && (y64.len() as f64) * ymax * ymax < F::max_value().to64() / 8.0;
            if !fits {
                obs.exclude("shift: n x^2 of the shifted data would overflow the float type");
            } else if ry.conditioned::<F>(0) {
                obs.eval();
                let cry = crit_candidates(dof, &c.conf)[0];
                let tol_y = ry.tol_bound::<F>(&cry, ry.mean.abs() + cry.c.abs() * ry.se, 0);
                match arith::<F>(&c.conf, &y) {
                    Out::Ok(i) => {
                        let (_, l0, h0) = bounds(ia);
                        let (_, l1, h1) = bounds(&i);
                        let kk = kf.to64();
                        // the shifted data are fl(x_i + k): the exact effect of that rounding on the reference is accounted for
                        let (_, el0, eh0) = ra.expected(&c.conf, cr.c);
                        let (_, el1, eh1) = ry.expected(&c.conf, cr.c);
                        for (x, y_, ex, ey) in [(l0, l1, el0, el1), (h0, h1, eh0, eh1)] {
                            if x.is_finite() {
                                let disc = ((ey - kk) - ex).abs();
                                let d = ((y_ - kk) - x).abs();
                                let tol = tol_x + tol_y + disc + 2.0 * F::U * kk.abs();
                                ensure!(d <= tol, format!("C16/shift/arithmetic/{kn}"), "{}: shifting the data by {kk:e} moves a bound from {x:e} to {y_:e}; after subtracting the shift the difference is {d:e} > tol {tol:e}", F::NAME);
                                obs.headroom(&format!("shift/{}", F::NAME), d / tol, || json!({"n": ra.n, "k": kk}));
                            }
                        }
                        obs.class("shift/checked");
                        // the same for the unpaired comparison: shifting sample a by k shifts the interval of a - b by k
                        if rb.conditioned::<F>(0) {
                            if let (Some(ux), Some(uy)) = (unpaired_ref::<F>(&ra, &rb, &c.conf), unpaired_ref::<F>(&ry, &rb, &c.conf)) {
                                obs.eval();
                                match unpaired::<F>(&c.conf, &y, &b_full) {
                                    Out::Ok(iy) => {
                                        let (_, l0, h0) = bounds(iu);
                                        let (_, l1, h1) = bounds(&iy);
                                        let (ex_l, ex_h) = (ux.diff - ux.c * ux.se, ux.diff + ux.c * ux.se);
                                        let (ey_l, ey_h) = (uy.diff - uy.c * uy.se, uy.diff + uy.c * uy.se);
                                        for (x0, y0, ex, ey) in [(l0, l1, ex_l, ey_l), (h0, h1, ex_h, ey_h)] {
                                            if x0.is_finite() {
                                                let disc = ((ey - kk) - ex).abs();
                                                let d = ((y0 - kk) - x0).abs();
                                                let tol = ux.tol + uy.tol + disc + 2.0 * F::U * kk.abs();
                                                ensure!(d <= tol, format!("C16/shift/unpaired/{kn}"), "{}: shifting sample a by {kk:e} moves an unpaired bound from {x0:e} to {y0:e}; after subtracting the shift the difference is {d:e} > tol {tol:e}", F::NAME);
                                            }
                                        }
                                        obs.class("shift/unpaired-checked");
                                    }
                                    o => return crate::engine::fail("C16/shift/rejected", o.describe()),
                                }
                            }
                        }
                        // shifting BOTH samples by k leaves the interval of a - b where it is (the second sample may be constant)
                        if rb.conditioned::<F>(0) || rb.constant {
                            let bs: Vec<F> = b_full.iter().map(|x| *x + F::from64(kk)).collect();
                            let rbs = MeanRef::new(&bs.iter().map(|x| x.to64()).collect::<Vec<_>>());
                            // the shifted second sample must itself stay clear of overflow in its sum of squares
                            let lim = if F::IS32 { f32::MAX as f64 } else { f64::MAX };
                            let fits_b = bs.iter().all(|x| x.to64().is_finite() && x.to64() * x.to64() * (bs.len() as f64) < lim / 65536.0);
                            if !fits_b {
                                obs.exclude("shift of both samples: the shifted second sample would overflow");
                            } else if rbs.conditioned::<F>(0) || rbs.constant {
                                if let (Some(ux), Some(us)) = (unpaired_ref::<F>(&ra, &rb, &c.conf), unpaired_ref::<F>(&ry, &rbs, &c.conf)) {
                                    obs.eval();
                                    match unpaired::<F>(&c.conf, &y, &bs) {
                                        Out::Ok(is) => {
                                            let (_, l0, h0) = bounds(iu);
                                            let (_, l1, h1) = bounds(&is);
                                            let (ex_l, ex_h) = (ux.diff - ux.c * ux.se, ux.diff + ux.c * ux.se);
                                            let (es_l, es_h) = (us.diff - us.c * us.se, us.diff + us.c * us.se);
                                            for (x0, y0, ex, es) in [(l0, l1, ex_l, es_l), (h0, h1, ex_h, es_h)] {
                                                if x0.is_finite() {
                                                    let disc = (es - ex).abs();
                                                    let d = (y0 - x0).abs();
                                                    let tol = ux.tol + us.tol + disc;
                                                    ensure!(d <= tol, format!("C16/shift_both/unpaired/{kn}"), "{}: shifting both samples by {kk:e} moves an unpaired bound from {x0:e} to {y0:e} (difference {d:e} > tol {tol:e}; second sample {})", F::NAME, if rb.constant { "constant" } else { "not constant" });
                                                }
                                            }
                                            obs.class(if rb.constant { "shift/unpaired-both/constant-second-sample" } else { "shift/unpaired-both" });
                                        }
                                        o => return crate::engine::fail("C16/shift/rejected", o.describe()),
                                    }
                                }
                            }
                        }
                        obs.nontrivial(&("shift", F::IS32, c.shift_code, c.conf.kind, c.conf.l().to_bits(), crate::engine::hash_of(&y.iter().map(|x| x.bits64()).collect::<Vec<_>>())));
                    }
                    o => return crate::engine::fail("C16/shift/rejected", o.describe()),
                }
            } else {
                obs.exclude("shift: shifted data leave the conditioning domain");
            }
        }
    } else {
        obs.exclude("reorder/shift: sample outside the conditioning domain");
    }

    // ---------- geometric / harmonic scaling on the positive sample
    let p: Vec<F> = to_f::<F>(&c.p);
    if let Some(e) = safe_e::<F>(&[&p], c.e) {
        if e != 0 {
            let s = F::from64(pow2(e));
            let sp: Vec<F> = p.iter().map(|x| *x * s).collect();
            obs.evals(2);
            // harmonic: reciprocals scale exactly
            let h0 = call(|| Harmonic::<F>::ci(c.conf.get(), &p));
            let h1 = call(|| Harmonic::<F>::ci(c.conf.get(), &sp));
            match (&h0, &h1) {
                (Out::Ok(x), Out::Ok(y)) => {
                    let recs: Vec<f64> = p.iter().map(|x| (F::one() / *x).to64()).collect();
                    let rr = MeanRef::new(&recs);
                    if var_safe::<F>(rr.var, rr.n, -e, false) {
                        // straddling reciprocal-space intervals (negative bounds) scale just as well
                        if let Err(msg) = scaled_eq::<F>(x, y, e, 2) {
                            return crate::engine::fail(format!("C16/scaling/harmonic/{kn}"), format!("{}: {msg}", F::NAME));
                        }
                        obs.class("scaling/harmonic");
                    }
                }
                (Out::Err(_), Out::Err(_)) => obs.class("scaling/harmonic/both-rejected"),
                (x, y) => return crate::engine::fail("C16/scaling/harmonic/outcome", format!("{} vs scaled {}", x.describe(), y.describe())),
            }
            // geometric: log-space shift, up to rounding
            let g0 = call(|| Geometric::<F>::ci(c.conf.get(), &p));
            let g1 = call(|| Geometric::<F>::ci(c.conf.get(), &sp));
            match (&g0, &g1) {
                (Out::Ok(x), Out::Ok(y)) => {
                    let l0: Vec<f64> = p.iter().map(|v| v.ln().to64()).collect();
                    let l1: Vec<f64> = sp.iter().map(|v| v.ln().to64()).collect();
                    let (r0, r1) = (MeanRef::new(&l0), MeanRef::new(&l1));
                    let dofp = (p.len() - 1) as f64;
                    if r0.conditioned::<F>(0) && r1.conditioned::<F>(0) {
                        let cr = crit_candidates(dofp, &c.conf)[0];
                        let maxl = |v: &Vec<f64>| v.iter().fold(0.0f64, |m, x| m.max(x.abs()));
                        let noise = |r: &MeanRef, v: &Vec<f64>| 2.0 * F::U * (r.m1 + cr.c.abs() / (r.n as f64).sqrt() * maxl(v));
                        let tl = r0.tol_bound::<F>(&cr, r0.mean.abs() + cr.c.abs() * r0.se, 0) + r1.tol_bound::<F>(&cr, r1.mean.abs() + cr.c.abs() * r1.se, 0) + noise(&r0, &l0) + noise(&r1, &l1);
                        let (k0, a0, b0) = bounds(x);
                        let (k1, a1, b1) = bounds(y);
                        ensure!(k0 == k1, "C16/scaling/geometric/kind", "{x:?} vs {y:?}");
                        let sc = pow2(e);
                        for (u, v) in [(a0, a1), (b0, b1)] {
                            // bounds in the subnormal range (or near overflow) have lost precision in exp
                            let tiny = F::min_positive_value().to64() * 1024.0;
                            let huge = F::max_value().to64() / 1024.0;
                            if u > tiny && u < huge && v > tiny && v < huge {
                                let rel = (v / sc / u - 1.0).abs();
                                let tol = tl * 1.5 + 8.0 * F::U;
                                ensure!(rel <= tol, format!("C16/scaling/geometric/{kn}"), "{}: geometric bound {u:e} scaled by 2^{e} should be {:e}, got {v:e} (relative diff {rel:e} > tol {tol:e})", F::NAME, u * sc);
                                obs.headroom(&format!("geometric_scaling/{}", F::NAME), rel / tol, || json!({"n": p.len(), "e": e}));
                            }
                        }
                        obs.class("scaling/geometric");
                    } else {
                        obs.exclude("geometric scaling: log-space data outside the conditioning domain");
                    }
                }
                (x, y) => return crate::engine::fail("C16/scaling/geometric/outcome", format!("{} vs scaled {}", x.describe(), y.describe())),
            }
        }
    }
    if obs.wants_sample(&format!("{}/{}", F::NAME, kn)) {
        obs.sample(&format!("{}/{}", F::NAME, kn), || json!({"type": F::NAME, "n_a": a.len(), "n_b": b_full.len(), "n_positive": p.len(), "conf": c.conf, "requested_exponent": c.e, "shift_code": c.shift_code, "arithmetic": format!("{ia:?}"), "paired": format!("{ip:?}"), "unpaired": format!("{iu:?}")}));
    }
    Ok(())
}
pub fn case(c: &Case, obs: &mut Obs) -> PResult {
    if c.a.f32 {
        case_generic::<f32>(c, obs)
    } else {
        case_generic::<f64>(c, obs)
    }
}

#[derive(Clone, Debug, Serialize, Deserialize)]
pub struct PermCase {
    pub f32: bool,
    pub values: Vec<crate::fl::X>,
    pub conf: Conf,
}
/// all permutations of a small sample: every ordering within tolerance of the exact value
pub fn perm_case(c: &PermCase, obs: &mut Obs) -> PResult {
    fn go<F: Fl>(c: &PermCase, obs: &mut Obs) -> PResult {
        let v64: Vec<f64> = c.values.iter().map(|x| x.0).collect();
        let r = MeanRef::new(&v64);
        if !r.conditioned::<F>(0) {
            return Ok(());
        }
        let n = v64.len();
        let cr = crit_candidates((n - 1) as f64, &c.conf)[0];
        let tol = r.tol_bound::<F>(&cr, r.mean.abs() + cr.c.abs() * r.se, 0);
        let (_, el, eh) = r.expected(&c.conf, cr.c);
        for idx in gen::permutations(n) {
            let d: Vec<F> = idx.iter().map(|&j| F::from64(v64[j])).collect();
            obs.eval();
            match arith::<F>(&c.conf, &d) {
                Out::Ok(iv) => {
                    let (_, l, h) = bounds(&iv);
                    for (g, e) in [(l, el), (h, eh)] {
                        if e.is_finite() {
                            ensure!((g - e).abs() <= tol, "C16/reorder/all_permutations", "{}: ordering {idx:?} of {v64:?} gives bound {g:e}, exact {e:e} (tol {tol:e})", F::NAME);
                        }
                    }
                }
                o => return crate::engine::fail("C16/reorder/rejected", o.describe()),
            }
        }
        obs.class("reorder/all-permutations");
        obs.nontrivial(&("allperm", F::IS32, c.conf.kind, c.conf.l().to_bits(), crate::engine::hash_of(&v64.iter().map(|x| x.to_bits()).collect::<Vec<_>>())));
        Ok(())
    }
    if c.f32 {
        go::<f32>(c, obs)
    } else {
        go::<f64>(c, obs)
    }
}

/// Exactly representable data (multiples of 1/4 with a handful of bits): every sum and square the crate forms is exact,
/// so scaling by 2^e must reproduce the bounds bit for bit for *every* e that keeps the data, their squares, the
/// variance and the bounds themselves inside the normal range — right up to the edges, and also where quantities
/// derived from them (variance / n, the standard error squared) would not be normal.
#[derive(Clone, Debug, Serialize, Deserialize)]
pub struct ExactCase {
    pub f32: bool,
    /// observations in quarters: x_i = q_i / 4
    pub a: Vec<i8>,
    pub b: Vec<i8>,
    pub conf: Conf,
    /// position of the scale inside the admissible exponent range: 0..=255 maps linearly from the lowest to the highest
    pub pos: u8,
}
pub fn exact_case(c: &ExactCase, obs: &mut Obs) -> PResult {
    fn go<F: Fl>(c: &ExactCase, obs: &mut Obs) -> PResult {
        let av: Vec<f64> = c.a.iter().map(|q| *q as f64 / 4.0).collect();
        let bv: Vec<f64> = c.b.iter().map(|q| *q as f64 / 4.0).collect();
        let m = av.len().min(bv.len());
        let ra = MeanRef::new(&av);
        if ra.constant || av.len() < 2 {
            return Ok(());
        }
        let d: Vec<f64> = av[..m].iter().zip(bv[..m].iter()).map(|(x, y)| x - y).collect();
        let rd = MeanRef::new(&d);
        let (min_exp, max_exp): (i32, i32) = if F::IS32 { (-126, 127) } else { (-1022, 1023) };
        // smallest magnitude that must stay normal: the smallest non-zero |x|, x^2, variance, |mean| * |sum|, |bound|
        let af: Vec<F> = av.iter().map(|x| F::from64(*x)).collect();
        let bf: Vec<F> = bv.iter().map(|x| F::from64(*x)).collect();
        let kn = c.conf.kind_name();
        let (Out::Ok(ia), pa) = (arith::<F>(&c.conf, &af), if m >= 2 && !rd.constant { Some(paired::<F>(&c.conf, &af[..m].to_vec(), &bf[..m].to_vec())) } else { None }) else {
            return crate::engine::fail("C16/exact_scaling/rejected", "base interval of exactly representable data is not Ok".to_string());
        };
        let (_, l0, h0) = bounds(&ia);
        let mut smallest = f64::INFINITY; // of quantities that scale with 2^e
        let mut smallest_sq = f64::INFINITY; // of quantities that scale with 4^e
        let mut largest_sq = 0.0f64;
        for x in av.iter().chain(bv.iter()) {
            if *x != 0.0 {
                smallest = smallest.min(x.abs());
                smallest_sq = smallest_sq.min(x * x);
            }
            largest_sq = largest_sq.max(x * x);
        }
        for b in [l0, h0, ra.mean, ra.sd] {
            if b.is_finite() && b != 0.0 {
                smallest = smallest.min(b.abs());
            }
        }
        for v in [ra.var, (ra.mean * ra.mean * ra.n as f64).abs()] {
            if v != 0.0 {
                smallest_sq = smallest_sq.min(v);
            }
        }
        let n_all = av.len().max(bv.len()) as f64;
        // admissible exponents: 2^e smallest >= MIN_POSITIVE, 4^e smallest_sq >= MIN_POSITIVE, n 4^e largest_sq <= MAX / 16
        let e_lo = (min_exp as f64 - smallest.log2()).ceil().max(((min_exp as f64 - smallest_sq.log2()) / 2.0).ceil()) as i32;
        let e_hi = (((max_exp - 4) as f64 - (n_all * largest_sq).log2()) / 2.0).floor() as i32;
        if e_lo >= e_hi {
            return Ok(());
        }
        // the position code reaches both ends exactly and the interior
        let e = match c.pos {
            0..=39 => e_lo + (c.pos as i32) / 8,
            216..=255 => e_hi - (255 - c.pos as i32) / 8,
            p => e_lo + ((p as i64 - 40) * (e_hi - e_lo) as i64 / 176) as i32,
        };
        if e == 0 {
            return Ok(());
        }
        let s = F::from64(pow2(e));
        let sc = |d: &[F]| -> Vec<F> { d.iter().map(|x| *x * s).collect() };
        obs.eval();
        match arith::<F>(&c.conf, &sc(&af)) {
            Out::Ok(i) => {
                if let Err(msg) = scaled_eq::<F>(&ia, &i, e, 0) {
                    return crate::engine::fail(format!("C16/exact_scaling/arithmetic/{kn}"), format!("{} data {av:?} (exactly representable), admissible exponents {e_lo}..={e_hi}: {msg}", F::NAME));
                }
            }
            o => return crate::engine::fail("C16/exact_scaling/arithmetic/rejected", format!("{} data {av:?} scaled by 2^{e} (admissible {e_lo}..={e_hi}): {}", F::NAME, o.describe())),
        }
        if let Some(Out::Ok(ip)) = pa {
            // the paired interval needs its own quantities normal: re-derive the lower limit from the differences
            let mut sm = f64::INFINITY;
            for v in [rd.var, (rd.mean * rd.mean * rd.n as f64).abs()] {
                if v != 0.0 {
                    sm = sm.min(v);
                }
            }
            let (_, pl, ph) = bounds(&ip);
            let mut s1 = f64::INFINITY;
            for b in [pl, ph, rd.mean, rd.sd].into_iter().chain(d.iter().copied()) {
                if b.is_finite() && b != 0.0 {
                    s1 = s1.min(b.abs());
                    sm = sm.min(b * b);
                }
            }
            let pe_lo = (min_exp as f64 - s1.log2()).ceil().max(((min_exp as f64 - sm.log2()) / 2.0).ceil()) as i32;
            if e >= pe_lo {
                obs.eval();
                match paired::<F>(&c.conf, &sc(&af[..m]), &sc(&bf[..m])) {
                    Out::Ok(i) => {
                        if let Err(msg) = scaled_eq::<F>(&ip, &i, e, 0) {
                            return crate::engine::fail(format!("C16/exact_scaling/paired/{kn}"), format!("{} pairs {av:?} / {bv:?} (exactly representable), exponent range from {pe_lo}: {msg}", F::NAME));
                        }
                        obs.class("exact_scaling/paired");
                    }
                    o => return crate::engine::fail("C16/exact_scaling/paired/rejected", format!("{} scaled by 2^{e}: {}", F::NAME, o.describe())),
                }
            }
        }
        let where_ = if e - e_lo < 5 { "lowest-exponents" } else if e_hi - e < 5 { "highest-exponents" } else { "interior" };
        obs.class(&format!("exact_scaling/{}/{where_}", F::NAME));
        obs.nontrivial(&(c.f32, &c.a, &c.b, c.conf.kind, c.conf.l().to_bits(), e));
        Ok(())
    }
    if c.f32 {
        go::<f32>(c, obs)
    } else {
        go::<f64>(c, obs)
    }
}

pub fn strategy(max_n: usize) -> impl Strategy<Value = Case> {
    any::<bool>().prop_flat_map(move |f32_| {
        let er = if f32_ { -20i32..=20 } else { -150i32..=150 };
        let pair = prop_oneof![19 => (gen::sample_of(f32_, max_n, false), gen::sample_of(f32_, max_n, false)).boxed(), 1 => crate::props::c04::tied_sd_pair(f32_).boxed()];
        (pair, gen::positive_sample_of(f32_, max_n.min(500)), gen::conf(), er, -64i32..=64, prop::collection::vec(any::<u16>(), 0..64))
            .prop_map(|((a, mut b), p, conf, e, shift_code, perm)| {
                // one pair in sixteen: a constant second sample (a fixed baseline)
                if perm.len() % 16 == 3 {
                    let v = b.data[0];
                    for x in b.data.iter_mut() {
                        *x = v;
                    }
                    b.shape = "constant".into();
                }
                // and one in sixteen a constant first sample (zero variance: the kind of the result is all that is left)
                let mut a = a;
                if perm.len() % 16 == 5 {
                    let v = a.data[0];
                    for x in a.data.iter_mut() {
                        *x = v;
                    }
                    a.shape = "constant".into();
                }
                Case { a, b, p, conf, e, shift_code, perm }
            })
    })
}

pub fn run(run: &mut Run) {
    run.technique = "proptest random search with shrinking; metamorphic relations between runs on related inputs (exact for power-of-two scaling and negation, derived tolerance for shift / reordering / geometric scaling); all permutations of small samples".into();
    run.rule = "generated samples and pairs (f32/f64) x power-of-two exponents clamped to the range in which scaling is exact x shifts on the scale of the spread x permutations x confidences, for arithmetic, paired, unpaired, geometric and harmonic intervals; all permutations of samples of 3..6 values; exactly representable samples (multiples of 1/4) scaled bit-exactly over the whole exponent range in which data, squares, variance and bounds stay normal (both ends reached); negation and scaling also through merge histories (same tree of +, reversed + and += on both sides); non-trivial = e != 0, non-identity permutation or k != 0 on non-constant data".into();
    crate::meanref::selftest_into(run);
    let (cases, shards, max_n) = match run.tier {
        crate::engine::Tier::Quick => (32_000u32, 32usize, 600usize),
        crate::engine::Tier::Thorough => (1_600_000, 256, 3000),
    };
    let seed = run.seed_for("random", 0);
    run.par(shards, |shard, obs| {
        crate::engine::prop_on(obs, "random", cases / shards as u32, crate::engine::mix(seed, "shard", shard as u64), strategy(max_n), case);
    });
    // all permutations of small samples
    let s = (any::<bool>(), 3usize..=6).prop_flat_map(|(f32_, n)| (Just(f32_), prop::collection::vec(-(1i32 << 16)..=(1i32 << 16), n..=n), 0u32..40, gen::conf())).prop_map(|(f32_, raw, kc, conf)| {
        let kappa = if kc == 0 { 0.0 } else { (2f64).powf(kc as f64 / 4.0 - 1.0) };
        let kappa = if f32_ { kappa.min(32.0) } else { kappa };
        let vals: Vec<f64> = raw.iter().map(|&r| { let v = kappa + r as f64 / 65536.0; if f32_ { (v as f32) as f64 } else { v } }).collect();
        PermCase { f32: f32_, values: crate::fl::xs(&vals), conf }
    });
    run.prop("all_permutations", run.tier.pick(3_000, 120_000), s, perm_case);
    // exactly representable data, scaled over the whole admissible exponent range
    // values in quarters; half of the samples avoid magnitudes below 1 (so that the variance over n, not the smallest
    // square, is the first quantity to leave the normal range at the bottom)
    let vals = |lo: usize, hi: usize| prop_oneof![prop::collection::vec(-24i8..=24, lo..=hi), prop::collection::vec((4i8..=9, any::<bool>()).prop_map(|(m, neg)| if neg { -m } else { m }), lo..=hi)];
    let s = (any::<bool>(), prop_oneof![3 => vals(2, 40), 1 => vals(41, 160)], vals(2, 40), gen::conf(), any::<u8>()).prop_map(|(f32_, a, b, conf, pos)| ExactCase { f32: f32_, a, b, conf, pos });
    run.prop("exact_scaling", run.tier.pick(40_000, 2_000_000), s, exact_case);
    for c in ["exact_scaling/f32/lowest-exponents", "exact_scaling/f64/lowest-exponents", "exact_scaling/f32/highest-exponents", "exact_scaling/f64/highest-exponents", "exact_scaling/f64/interior", "exact_scaling/paired"] {
        run.require_class(c);
    }
    for c in ["scaling/arithmetic/bit-exact", "scaling/paired/bit-exact", "scaling/unpaired/bit-exact", "scaling/harmonic", "scaling/geometric", "negation/bit-exact", "negation/merge-history/bit-exact", "scaling/merge-history/bit-exact", "scaling/edge-upper/arithmetic", "scaling/edge-lower/arithmetic", "scaling/edge-upper/paired", "shift/unpaired-both", "shift/unpaired-both/constant-second-sample", "reorder/non-identity", "shift/checked", "shift/unpaired-checked", "reorder/all-permutations", "f32/two", "f32/upper", "f64/lower"] {
        run.require_class(c);
    }
    run.assumptions.push("scaling is required to be bit-exact only where no intermediate quantity leaves the normal floating-point range (data in [2^-200, 2^200] resp. [2^-25, 2^25], variance-level quantities checked from the exact statistics); other cases are counted as excluded".into());
    run.assumptions.push("the shifted data are fl(x_i + k); the exact effect of that rounding on the reference interval is computed and allowed for".into());
}

pub fn replay(sub: &str, v: &Value, obs: &mut Obs) -> Option<PResult> {
    Some(match sub {
        "random" => case(&de(v), obs),
        "all_permutations" => perm_case(&de(v), obs),
        "exact_scaling" => exact_case(&de(v), obs),
        _ => return None,
    })
}
