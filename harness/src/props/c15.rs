//! C15 — interval comparison is a strict partial order consistent with equality.

use crate::engine::{Obs, PResult, Run};
use crate::fl::X;
use crate::model::{all_intervals, MI};
use crate::props::de;
use proptest::prelude::*;
use serde::{Deserialize, Serialize};
use serde_json::{json, Value};
use stats_ci::Interval;
use std::cmp::Ordering;
use std::fmt::Debug;

#[derive(Clone, Debug, Serialize, Deserialize)]
pub struct Triple {
    pub ty: String,
    pub a: MI,
    pub b: MI,
    pub c: MI,
}

fn chain_i32() -> Vec<i32> {
    vec![-7, -2, 0, 1, 5, 100, 1000]
}
fn chain_f64(alt: bool) -> Vec<f64> {
    vec![-1e300, -2.5, if alt { 0.0 } else { -0.0 }, 1e-300, 1.0, 3.5, 1e300]
}
fn chain_str() -> Vec<&'static str> {
    vec!["", "a", "ab", "b", "ba", "z", "zz"]
}

/// the order the property defines, on the model
fn model_cmp(a: &MI, b: &MI) -> Option<Ordering> {
    if a == b {
        Some(Ordering::Equal)
    } else if a.all_le(b) {
        Some(Ordering::Less)
    } else if b.all_le(a) {
        Some(Ordering::Greater)
    } else {
        None
    }
}
fn rel_class(a: &MI, b: &MI) -> &'static str {
    match model_cmp(a, b) {
        Some(Ordering::Equal) => "equal",
        Some(Ordering::Less) => {
            if a.hi() == b.lo() {
                "less-touching"
            } else {
                "less"
            }
        }
        Some(Ordering::Greater) => {
            if b.hi() == a.lo() {
                "greater-touching"
            } else {
                "greater"
            }
        }
        None => {
            if (a.kind == 1 && b.kind == 1) || (a.kind == 2 && b.kind == 2) {
                "incomparable-same-side-unbounded"
            } else {
                "incomparable-overlap"
            }
        }
    }
}

fn check_pair<T: PartialOrd + Clone + Debug>(ia: &Interval<T>, ib: &Interval<T>, want: Option<Ordering>, want_eq: bool, kp: &str, obs: &mut Obs) -> PResult {
    obs.evals(10);
    let got = ia.partial_cmp(ib);
    ensure!(got == want, format!("C15/partial_cmp/{kp}"), "partial_cmp({ia:?}, {ib:?}) = {got:?}, definition says {want:?}");
    let eq = ia == ib;
    ensure!(eq == want_eq, format!("C15/eq/{kp}"), "({ia:?} == {ib:?}) = {eq}, expected {want_eq}");
    // every way of asking for (in)equality: the operators on values and on references, and the trait methods
    let ne = ia != ib;
    ensure!(ne == !want_eq, format!("C15/ne/{kp}"), "({ia:?} != {ib:?}) = {ne}, expected {}", !want_eq);
    ensure!((&ia == &ib) == eq && (&ia != &ib) == ne && ia.eq(ib) == eq && ia.ne(ib) == ne && (ib == ia) == eq && (ib != ia) == ne, format!("C15/eq_forms/{kp}"), "the forms of == / != disagree for {ia:?}, {ib:?}: == {eq}, != {ne}, refs {} {}, methods {} {}, reversed {} {}", &ia == &ib, &ia != &ib, ia.eq(ib), ia.ne(ib), ib == ia, ib != ia);
    ensure!((&ia).partial_cmp(&ib) == got && ia.lt(ib) == (ia < ib) && ia.le(ib) == (ia <= ib) && ia.gt(ib) == (ia > ib) && ia.ge(ib) == (ia >= ib), format!("C15/cmp_forms/{kp}"), "the method and operator forms of the comparison disagree for {ia:?}, {ib:?}");
    ensure!((got == Some(Ordering::Equal)) == eq, format!("C15/equal_iff_eq/{kp}"), "partial_cmp({ia:?}, {ib:?}) = {got:?} but == is {eq}");
    let lt = ia < ib;
    let gt_rev = ib > ia;
    ensure!(lt == (want == Some(Ordering::Less)), format!("C15/lt/{kp}"), "({ia:?} < {ib:?}) = {lt}, definition says {:?}", want);
    ensure!(lt == gt_rev, format!("C15/lt_iff_gt_reversed/{kp}"), "({ia:?} < {ib:?}) = {lt} but ({ib:?} > {ia:?}) = {gt_rev}");
    let le = ia <= ib;
    ensure!(le == matches!(want, Some(Ordering::Less | Ordering::Equal)), format!("C15/le/{kp}"), "({ia:?} <= {ib:?}) = {le}, definition says {want:?}");
    let ge = ia >= ib;
    ensure!(ge == matches!(want, Some(Ordering::Greater | Ordering::Equal)), format!("C15/ge/{kp}"), "({ia:?} >= {ib:?}) = {ge}, definition says {want:?}");
    let gt = ia > ib;
    ensure!(gt == (want == Some(Ordering::Greater)), format!("C15/gt/{kp}"), "({ia:?} > {ib:?}) = {gt}, definition says {want:?}");
    ensure!(gt == (ib < ia), format!("C15/gt_iff_lt_reversed/{kp}"), "({ia:?} > {ib:?}) = {gt} but ({ib:?} < {ia:?}) = {}", ib < ia);
    ensure!(!(ia < ia) && !(ia > ia) && ia <= ia && ia >= ia, format!("C15/irreflexive/{kp}"), "{ia:?} compared with itself: < {} > {} <= {} >= {}", ia < ia, ia > ia, ia <= ia, ia >= ia);
    Ok(())
}

fn triple_generic<T: PartialOrd + Clone + Debug>(ca: &[T], cb: &[T], t: &Triple, obs: &mut Obs) -> PResult {
    let ia: Interval<T> = t.a.build(ca);
    let ib: Interval<T> = t.b.build(cb);
    let ic: Interval<T> = t.c.build(ca);
    let kp = format!("{}-{}", t.a.kind_name(), t.b.kind_name());
    let cls = format!("{kp}/{}", rel_class(&t.a, &t.b));
    obs.class(&cls);
    obs.nontrivial(&(&t.ty, t.a, t.b, t.c));
    if obs.wants_sample(&cls) {
        obs.sample(&cls, || json!({"type": t.ty, "a": format!("{ia:?}"), "b": format!("{ib:?}"), "c": format!("{ic:?}"), "partial_cmp(a,b)": format!("{:?}", ia.partial_cmp(&ib))}));
    }
    check_pair(&ia, &ib, model_cmp(&t.a, &t.b), t.a == t.b, &kp, obs)?;
    // transitivity on the implementation's own answers
    obs.eval();
    if ia < ib && ib < ic {
        ensure!(ia < ic, "C15/transitivity", "{ia:?} < {ib:?} and {ib:?} < {ic:?} but not {ia:?} < {ic:?}");
    }
    if ia <= ib && ib <= ic {
        ensure!(ia <= ic, "C15/transitivity_le", "{ia:?} <= {ib:?} <= {ic:?} but not {ia:?} <= {ic:?}");
    }
    Ok(())
}
pub fn triple_case(t: &Triple, obs: &mut Obs) -> PResult {
    match t.ty.as_str() {
        "i32" => triple_generic(&chain_i32(), &chain_i32(), t, obs),
        "f64" => triple_generic(&chain_f64(false), &chain_f64(true), t, obs),
        "str" => triple_generic(&chain_str(), &chain_str(), t, obs),
        x => crate::engine::fail("INFRA/harness_panic", format!("unknown type {x}")),
    }
}

// random wide-range triples --------------------------------------------------------------------

#[derive(Clone, Debug, Serialize, Deserialize)]
pub struct WideI {
    pub k: [u8; 3],
    pub v: [(i64, i64); 3],
}
#[derive(Clone, Debug, Serialize, Deserialize)]
pub struct WideF {
    pub k: [u8; 3],
    pub v: [(X, X); 3],
}
fn mk<T: PartialOrd + Copy>(kind: u8, p: (T, T)) -> Interval<T> {
    let (l, h) = if p.0 <= p.1 { (p.0, p.1) } else { (p.1, p.0) };
    match kind {
        0 => Interval::TwoSided(l, h),
        1 => Interval::UpperOneSided(l),
        _ => Interval::LowerOneSided(h),
    }
}
/// definition on the values: None = unbounded
fn wide_cmp<T: PartialOrd + Copy>(a: &Interval<T>, b: &Interval<T>) -> (Option<Ordering>, bool) {
    let eq = match (a, b) {
        (Interval::TwoSided(x, y), Interval::TwoSided(p, q)) => x == p && y == q,
        (Interval::UpperOneSided(x), Interval::UpperOneSided(p)) => x == p,
        (Interval::LowerOneSided(x), Interval::LowerOneSided(p)) => x == p,
        _ => false,
    };
    let all_le = |a: &Interval<T>, b: &Interval<T>| -> bool {
        match (a.right(), b.left()) {
            (Some(h), Some(l)) => h <= l,
            _ => false,
        }
    };
    let ord = if eq {
        Some(Ordering::Equal)
    } else if all_le(a, b) {
        Some(Ordering::Less)
    } else if all_le(b, a) {
        Some(Ordering::Greater)
    } else {
        None
    };
    (ord, eq)
}
fn wide_generic<T: PartialOrd + Copy + Debug>(k: [u8; 3], v: [(T, T); 3], obs: &mut Obs) -> PResult {
    let ia = mk(k[0], v[0]);
    let ib = mk(k[1], v[1]);
    let ic = mk(k[2], v[2]);
    let kn = ["two", "upper", "lower"];
    let kp = format!("{}-{}", kn[k[0] as usize], kn[k[1] as usize]);
    obs.class(&format!("wide/{kp}"));
    let (want, eq) = wide_cmp(&ia, &ib);
    check_pair(&ia, &ib, want, eq, &kp, obs)?;
    obs.eval();
    if ia < ib && ib < ic {
        ensure!(ia < ic, "C15/transitivity", "{ia:?} < {ib:?} and {ib:?} < {ic:?} but not {ia:?} < {ic:?}");
    }
    Ok(())
}
pub fn wide_i(c: &WideI, obs: &mut Obs) -> PResult {
    obs.nontrivial(&(c.k, c.v));
    wide_generic(c.k, c.v, obs)
}
pub fn wide_f(c: &WideF, obs: &mut Obs) -> PResult {
    let v = [(c.v[0].0 .0, c.v[0].1 .0), (c.v[1].0 .0, c.v[1].1 .0), (c.v[2].0 .0, c.v[2].1 .0)];
    obs.nontrivial(&(c.k, v.map(|p| (p.0.to_bits(), p.1.to_bits()))));
    wide_generic(c.k, v, obs)
}
fn small_or_wide_i64() -> impl Strategy<Value = i64> {
    prop_oneof![3 => -3i64..=3, 2 => any::<i64>(), 1 => prop::sample::select(vec![i64::MIN, i64::MAX, 0])]
}
fn small_or_wide_f64() -> impl Strategy<Value = f64> {
    prop_oneof![
        3 => (-6i32..=6).prop_map(|i| i as f64 * 0.5),
        2 => any::<u64>().prop_map(f64::from_bits).prop_filter("no NaN", |x| !x.is_nan()),
        1 => prop::sample::select(vec![0.0, -0.0, f64::MAX, f64::MIN, f64::INFINITY, f64::NEG_INFINITY, 5e-324]),
    ]
}

pub fn run(run: &mut Run) {
    run.technique = "bounded exhaustive enumeration of all ordered triples over a 7-chain (set-model oracle for <, ==, incomparability; order axioms) + proptest random triples".into();
    run.rule = "all 42^3 ordered triples of intervals over a 7-element chain for i32, f64 (with -0/+0) and &str, plus random i64/f64 triples; every triple is non-trivial; distinct = (type, a, b, c)".into();
    let all = all_intervals(0, 6);
    let tys = ["i32", "f64", "str"];
    let all_ref = &all;
    run.par(tys.len() * all.len(), |shard, obs| {
        let ty = tys[shard / all_ref.len()];
        let a = all_ref[shard % all_ref.len()];
        for b in all_ref {
            for c in all_ref {
                crate::engine::case_on(obs, "triple", &Triple { ty: ty.into(), a, b: *b, c: *c }, triple_case);
            }
        }
    });
    run.exhaustive = true;
    run.exhaustive_parts.push("all 74 088 ordered triples of the 42 intervals over a 7-chain, for i32, f64 and &str".into());
    let n = run.tier.pick(100_000, 4_000_000);
    let si = (prop::array::uniform3(0u8..3), prop::array::uniform3((small_or_wide_i64(), small_or_wide_i64()))).prop_map(|(k, v)| WideI { k, v });
    run.prop("wide_i64", n, si, wide_i);
    let sf = (prop::array::uniform3(0u8..3), prop::array::uniform3((small_or_wide_f64(), small_or_wide_f64()))).prop_map(|(k, v)| WideF { k, v: v.map(|p| (X(p.0), X(p.1))) });
    run.prop("wide_f64", n, sf, wide_f);
    for c in ["two-two/less-touching", "two-upper/less-touching", "lower-two/less-touching", "lower-upper/less-touching", "upper-upper/incomparable-same-side-unbounded", "two-two/incomparable-overlap", "two-two/equal", "upper-upper/equal", "lower-lower/equal"] {
        run.require_class(c);
    }
    run.assumptions.push("NaN bounds are outside the quantifier; a one-sided interval is unbounded beyond every value of the element type".into());
}

pub fn replay(sub: &str, v: &Value, obs: &mut Obs) -> Option<PResult> {
    Some(match sub {
        "triple" => triple_case(&de(v), obs),
        "wide_i64" => wide_i(&de(v), obs),
        "wide_f64" => wide_f(&de(v), obs),
        _ => return None,
    })
}
