//! C01 — arithmetic-mean CI is the Student-t interval of the exact sample statistics.

use crate::engine::{Obs, PResult, Run};
use crate::fl::Fl;
use crate::gen::{self, Sample};
use crate::meanref::{compare_mean_interval, crit_candidates, MeanRef};
use crate::model::{bounds, call, Conf, Out};
use crate::props::de;
use proptest::prelude::*;
use serde::{Deserialize, Serialize};
use serde_json::{json, Value};
use stats_ci::mean::Arithmetic;
use stats_ci::{Interval, MeanCI, StatisticsOps};

pub const STYLES: [&str; 8] = ["ci", "trait_StatisticsOps_ci", "trait_MeanCI_ci", "from_iter+ci_mean", "new+extend_chunks+ci_mean", "append_loop+ci_mean", "ci(sparse container)", "from_iter+extend(sparse container)"];

#[derive(Clone, Debug, Serialize, Deserialize)]
pub struct Case {
    pub sample: Sample,
    pub conf: Conf,
    pub style: u8,
    /// chunk cut codes for the `extend` style
    pub cuts: Vec<u16>,
}

/// statistics read from an incremental state
pub struct StateStats {
    pub count: usize,
    pub mean: f64,
    pub var: f64,
    pub sd: f64,
}

/// run one call style; returns the interval and, for the incremental styles, the state's statistics
pub fn arith_style<F: Fl>(style: u8, conf: &Conf, data: &Vec<F>, cuts: &[u16]) -> Out<(Interval<F>, Option<StateStats>)> {
    let c = conf.get();
    let stats_of = |s: &Arithmetic<F>| StateStats { count: s.sample_count(), mean: s.sample_mean().to64(), var: s.sample_variance().to64(), sd: s.sample_std_dev().to64() };
    call(|| match style {
        0 => Arithmetic::<F>::ci(c, data).map(|i| (i, None)),
        1 => <Arithmetic<F> as StatisticsOps<F>>::ci(c, data).map(|i| (i, None)),
        2 => <Arithmetic<F> as MeanCI<F>>::ci(c, data).map(|i| (i, None)),
        3 => {
            let s = <Arithmetic<F> as StatisticsOps<F>>::from_iter(data)?;
            let st = if data.len() >= 2 { Some(stats_of(&s)) } else { None };
            s.ci_mean(c).map(|i| (i, st))
        }
        4 => {
            let mut s = Arithmetic::<F>::new();
            let cp = gen::cut_points(cuts, data.len());
            for chunk in gen::split_at(data, &cp) {
                let v: Vec<F> = chunk.to_vec();
                StatisticsOps::extend(&mut s, &v)?;
            }
            let st = if data.len() >= 2 { Some(stats_of(&s)) } else { None };
            s.ci_mean(c).map(|i| (i, st))
        }
        6 => {
            // a container whose iterator has a loose size_hint
            let sp = gen::sparse(data, cuts.len() as u64 * 31 + data.len() as u64, 1 + cuts.len());
            Arithmetic::<F>::ci(c, &sp).map(|i| (i, None))
        }
        7 => {
            let half = data.len() / 2;
            let sp1 = gen::sparse(&data[..half], 7 + data.len() as u64, 2);
            let sp2 = gen::sparse(&data[half..], 11 + data.len() as u64, 1 + cuts.len());
            let mut s = <Arithmetic<F> as StatisticsOps<F>>::from_iter(&sp1)?;
            StatisticsOps::extend(&mut s, &sp2)?;
            let st = if data.len() >= 2 { Some(stats_of(&s)) } else { None };
            s.ci_mean(c).map(|i| (i, st))
        }
        _ => {
            let mut s = Arithmetic::<F>::default();
            for &x in data.iter() {
                StatisticsOps::append(&mut s, x)?;
            }
            let st = if data.len() >= 2 { Some(stats_of(&s)) } else { None };
            s.ci_mean(c).map(|i| (i, st))
        }
    })
}

pub fn kappa_bucket(k: f64) -> &'static str {
    if k < 1.0 {
        "kappa<1"
    } else if k < 1e2 {
        "kappa<1e2"
    } else if k < 1e4 {
        "kappa<1e4"
    } else if k < 1e6 {
        "kappa<1e6"
    } else {
        "kappa>=1e6"
    }
}

fn case_generic<F: Fl>(c: &Case, obs: &mut Obs) -> PResult {
    let data64 = c.sample.v64();
    let data: Vec<F> = data64.iter().map(|&x| F::from64(x)).collect();
    let n = data.len();
    let style = STYLES[c.style as usize % STYLES.len()];
    let r = MeanRef::new(&data64);
    obs.eval();
    obs.class(&format!("{}/{}/{}/{}", F::NAME, c.sample.n_bucket(), c.conf.kind_name(), c.conf.level_bucket()));
    obs.class(&format!("style/{style}"));
    obs.class(&format!("shape/{}", c.sample.shape));
    let out = arith_style::<F>(c.style % STYLES.len() as u8, &c.conf, &data, &c.cuts);
    let (interval, st) = match out {
        Out::Ok(v) => v,
        o => {
            let what = match &o {
                Out::Err(e) => format!("Err({e:?})"),
                Out::Panic(p) => format!("panic: {p}"),
                _ => unreachable!(),
            };
            let kind = if matches!(o, Out::Panic(_)) { "panic" } else { "error" };
            return crate::engine::fail(format!("C01/{kind}_on_valid_sample"), format!("{style} on a valid {}-sample of {n} values: {what}", F::NAME));
        }
    };
    let got = bounds(&interval);
    // facts that do not depend on conditioning: kind, order, no NaN
    ensure!(got.0 == c.conf.kind, "C01/kind", "{style}: result {interval:?} for {:?}", c.conf);
    ensure!(!got.1.is_nan() && !got.2.is_nan(), "C01/nan_bound", "{style}: {interval:?} on a finite sample of {n} values ({})", F::NAME);
    ensure!(got.1 <= got.2, "C01/inverted", "{style}: {interval:?}");
    if r.constant {
        obs.class("constant-data");
        // s = 0 is the limit kappa -> infinity of the conditioning scale: the computed variance is pure
        // rounding noise of size <= dv, which the square root and the critical value amplify. The bound
        // must stay within |c| * sqrt(dv / n) of the mean (derived, not calibrated).
        let cmax = crit_candidates((n - 1) as f64, &c.conf).iter().map(|c| c.c.abs() + c.dc).fold(0.0, f64::max);
        let tol = r.tol_mean::<F>(0) * 4.0 + 2.0 * cmax * (r.dv::<F>(0) / n as f64).sqrt() + F::U * r.mean.abs();
        for b in [got.1, got.2] {
            if b.is_finite() {
                ensure!((b - r.mean).abs() <= tol, "C01/constant_data_bound", "{style}: constant data {:e} x{n}: bound {b:e} (tol {tol:e})", r.mean);
            }
        }
        return Ok(());
    }
    if !r.conditioned::<F>(0) {
        obs.class("ill-conditioned");
        obs.exclude("ill_conditioned (outside the conditioning domain: only kind, order and finiteness are checked)");
        return Ok(());
    }
    obs.class(kappa_bucket(r.kappa));
    let dof = (n - 1) as f64;
    match compare_mean_interval::<F>(&r, &c.conf, dof, 0, got) {
        Ok(ratio) => {
            obs.headroom(&format!("bound/{}", F::NAME), ratio, || json!({"n": n, "conf": c.conf, "shape": c.sample.shape, "kappa": r.kappa, "style": style}));
        }
        Err(msg) => {
            let side = if c.conf.l() < 0.5 && c.conf.kind != 0 { "/level_below_half" } else { "" };
            return crate::engine::fail(format!("C01/bounds/{}{side}", c.conf.kind_name()), format!("{style} ({}): {msg}", F::NAME));
        }
    }
    if let Some(st) = st {
        obs.evals(4);
        ensure!(st.count == n, "C01/sample_count", "{style}: sample_count {} for {n} values", st.count);
        let e = (st.mean - r.mean).abs();
        let t = r.tol_mean::<F>(0) * 2.0;
        ensure!(e <= t, "C01/sample_mean", "{style}: sample_mean {:e} vs exact {:e} (err {e:e} > tol {t:e})", st.mean, r.mean);
        obs.headroom(&format!("sample_mean/{}", F::NAME), e / t, || json!({"n": n}));
        let e = (st.var - r.var).abs();
        let t = r.tol_var::<F>(0) * 2.0 + 2.0 * F::U * r.var;
        ensure!(e <= t, "C01/sample_variance", "{style}: sample_variance {:e} vs exact {:e} (err {e:e} > tol {t:e}, n {n})", st.var, r.var);
        obs.headroom(&format!("sample_variance/{}", F::NAME), e / t, || json!({"n": n}));
        let e = (st.sd - r.sd).abs();
        let t = r.tol_sd::<F>(0) * 2.0;
        ensure!(e <= t, "C01/sample_std_dev", "{style}: sample_std_dev {:e} vs exact {:e} (err {e:e} > tol {t:e})", st.sd, r.sd);
        obs.headroom(&format!("sample_std_dev/{}", F::NAME), e / t, || json!({"n": n}));
    }
    // non-trivial: the check could tell a 0.1 % error of the half-width
    let cr = crit_candidates(dof, &c.conf);
    let cc = cr[0];
    let tol = r.tol_bound::<F>(&cc, r.mean, 0);
    if tol < 1e-3 * cc.c.abs() * r.se {
        obs.nontrivial(&(F::IS32, n, c.conf.kind, c.conf.l().to_bits(), crate::engine::hash_of(&data64.iter().map(|x| x.to_bits()).collect::<Vec<_>>())));
        let cls = format!("nontrivial/{}/{}", F::NAME, c.sample.n_bucket());
        obs.class(&cls);
        if obs.wants_sample(&cls) {
            let show: Vec<f64> = data64.iter().take(8).copied().collect();
            obs.sample(&cls, || json!({"type": F::NAME, "n": n, "first_values": show, "shape": c.sample.shape, "conf": c.conf, "style": style, "exact_mean": r.mean, "exact_sd": r.sd, "critical_value": cc.c, "result": format!("{interval:?}")}));
        }
    } else {
        obs.class("trivial/tolerance-too-wide-to-resolve-0.1%");
    }
    Ok(())
}

pub fn case(c: &Case, obs: &mut Obs) -> PResult {
    if c.sample.f32 {
        case_generic::<f32>(c, obs)
    } else {
        case_generic::<f64>(c, obs)
    }
}

pub fn strategy(max_n: usize) -> impl Strategy<Value = Case> {
    (gen::sample(max_n, true), gen::conf(), 0u8..8, gen::cuts(5)).prop_map(|(sample, conf, style, cuts)| Case { sample, conf, style, cuts })
}

/// large samples around the t -> z switch (real arrays, not merged states)
fn large_case(f32_: bool, n: usize, idx: usize) -> impl Strategy<Value = Case> {
    let r = -(1i32 << 20)..=(1i32 << 20);
    let kind = ((idx / 2) % 3) as u8;
    (prop::collection::vec((r.clone(), r), n..=n), gen::level(), 0usize..6, 0u32..=16, any::<bool>()).prop_map(move |(raw, level, shape, kc, neg)| {
        let conf = Conf::new(kind, level);
        let data = gen::build_values(f32_, shape, kc, neg, 0, &raw);
        Case { sample: Sample { f32: f32_, shape: gen::SHAPES[shape].to_string(), data: crate::fl::xs(&data) }, conf, style: [0u8, 3, 4, 5][idx % 4], cuts: vec![7, 30000, 30000, 65000] }
    })
}

/// One batch call over more observations than the float type counts exactly (f32: 2^24): the data cycle through
/// 1, 2, 3, 4, so the exact moments follow from the counts of each value without touching the elements.
#[derive(Clone, Debug, Serialize, Deserialize)]
pub struct HugeCase {
    pub f32: bool,
    pub n: usize,
    pub conf: Conf,
    /// 0: one-shot ci, 1: from_iter then sample_count / ci_mean, 2: new + one extend
    pub style: u8,
}
pub fn huge_case(c: &HugeCase, obs: &mut Obs) -> PResult {
    fn go<F: Fl>(c: &HugeCase, obs: &mut Obs) -> PResult {
        use num_bigint::BigInt;
        let n = c.n;
        let data: Vec<F> = (0..n).map(|i| F::from64((i % 4 + 1) as f64)).collect();
        let cnt = |k: usize| (n / 4 + usize::from(n % 4 >= k)) as u64; // number of elements equal to k (k = 1..4)
        let (mut s1, mut s2) = (BigInt::from(0u8), BigInt::from(0u8));
        for k in 1..=4usize {
            s1 += BigInt::from(cnt(k)) * BigInt::from(k);
            s2 += BigInt::from(cnt(k)) * BigInt::from(k * k);
        }
        let mom = crate::exact::Moments { n, s1: crate::exact::Dy { num: s1.clone(), exp: 0 }, s2: crate::exact::Dy { num: s2, exp: 0 }, sa: crate::exact::Dy { num: s1, exp: 0 } };
        let r = MeanRef::from_moments(mom);
        obs.evals(2);
        let conf = c.conf.get();
        let (out, count) = match c.style {
            0 => (call(|| Arithmetic::<F>::ci(conf, &data)), None),
            1 => {
                let st = <Arithmetic<F> as StatisticsOps<F>>::from_iter(&data);
                match st {
                    Ok(st) => (call(|| st.ci_mean(conf)), Some(st.sample_count())),
                    Err(e) => (Out::Err(e), None),
                }
            }
            _ => {
                let mut st = Arithmetic::<F>::new();
                match st.extend(&data) {
                    Ok(()) => (call(|| st.ci_mean(conf)), Some(st.sample_count())),
                    Err(e) => (Out::Err(e), None),
                }
            }
        };
        if let Some(k) = count {
            ensure!(k == n, "C01/sample_count", "{}: one batch of {n} observations gives sample_count {k}", F::NAME);
        }
        let i = match out {
            Out::Ok(i) => i,
            o => return crate::engine::fail("C01/error_on_valid_sample", format!("{}: one batch of {n} observations cycling 1,2,3,4: {}", F::NAME, o.describe())),
        };
        match compare_mean_interval::<F>(&r, &c.conf, (n - 1) as f64, 0, bounds(&i)) {
            Ok(ratio) => obs.headroom(&format!("huge_batch/{}", F::NAME), ratio, || json!({"n": n, "conf": c.conf})),
            Err(msg) => return crate::engine::fail(format!("C01/bounds/{}", c.conf.kind_name()), format!("one batch of {n} observations ({}, style {}): {msg}", F::NAME, c.style)),
        }
        obs.class(&format!("huge_batch/{}", F::NAME));
        obs.nontrivial(&(c.f32, n, c.conf.kind, c.conf.l().to_bits(), c.style));
        Ok(())
    }
    if c.f32 {
        go::<f32>(c, obs)
    } else {
        go::<f64>(c, obs)
    }
}

pub fn run(run: &mut Run) {
    run.technique = "proptest random search with shrinking against an exact-arithmetic (big-integer) reference and an independent Student-t / normal quantile (Gauss–Legendre quadrature), with derived tolerances".into();
    run.rule = "samples (n 2..5000 random, plus large n around 100 000 and single batches just beyond 2^24 observations (exact moments from the counts of a 1,2,3,4 cycle); f32/f64; six shapes; conditioning kappa up to the domain limit, a small fraction beyond) x confidence (grid/uniform/log near the ends, three kinds) x eight call styles (two of them through a container whose iterator has a loose size_hint); non-trivial = n >= 2, s > 0, inside the conditioning domain and tolerance < 0.1 % of the half-width; distinct = (type, n, kind, level, data hash)".into();
    crate::meanref::selftest_into(run);
    let (cases, shards, max_n) = match run.tier {
        crate::engine::Tier::Quick => (200_000u32, 32usize, 2000usize),
        crate::engine::Tier::Thorough => (6_000_000, 256, 5000),
    };
    let seed = run.seed_for("random", 0);
    run.par(shards, |shard, obs| {
        crate::engine::prop_on(obs, "random", cases / shards as u32, crate::engine::mix(seed, "shard", shard as u64), strategy(max_n), case);
    });
    // large n: explicit sizes on both sides of the switch
    let sizes: Vec<usize> = match run.tier {
        crate::engine::Tier::Quick => vec![99_999, 100_000, 100_001, 100_002, 100_003, 120_000, 50_000, 150_000],
        crate::engine::Tier::Thorough => {
            let mut v = vec![99_990, 99_998, 99_999, 100_000, 100_001, 100_002, 100_003, 100_004, 100_010, 120_000, 150_000, 250_000];
            for i in 0..60 {
                v.push(5_001 + i * 1_571);
            }
            v
        }
    };
    // job index: type (2) x kind (3) x size
    let seed = run.seed_for("large", 0);
    let n_jobs = sizes.len() * 6;
    let sizes_ref = &sizes;
    run.par(n_jobs, |job, obs| {
        let f32_ = job % 2 == 1;
        let n = sizes_ref[(job / 6) % sizes_ref.len()];
        let s = large_case(f32_, n, job);
        for c in crate::engine::draw(&s, crate::engine::mix(seed, "large", job as u64), 1) {
            crate::engine::case_on(obs, "large", &c, case);
        }
    });
    // constant samples on both sides of the switch (s = 0 must give a zero-width interval on either branch)
    for (j, &n) in [99_999usize, 100_001, 150_000].iter().enumerate() {
        for f32_ in [false, true] {
            for kind in 0u8..3 {
                let v = [3.5, 0.1, -123.456][j];
                let v = if f32_ { (v as f32) as f64 } else { v };
                let c = Case { sample: Sample { f32: f32_, shape: "constant".into(), data: crate::fl::xs(&vec![v; n]) }, conf: Conf::new(kind, [0.95, 0.3, 0.999][kind as usize]), style: [0u8, 3, 5][kind as usize], cuts: vec![] };
                run.case("large", &c, case);
            }
        }
    }
    run.require_class("constant-data");
    for t in ["f32", "f64"] {
        for b in ["n2-9", "n10-100", "n101-5000", "n>=100000"] {
            for k in ["two", "upper", "lower"] {
                // at least one level bucket must be hit for each (type, n bucket, kind)
                let any: u64 = run.obs.classes.iter().filter(|(c, _)| c.starts_with(&format!("{t}/{b}/{k}/"))).map(|(_, v)| *v).sum();
                if any == 0 {
                    run.infra_errors.push(format!("generator regression: class {t}/{b}/{k} is empty"));
                }
            }
        }
        run.require_class(&format!("nontrivial/{t}/n2-9"));
        run.require_class(&format!("nontrivial/{t}/n>=100000"));
    }
    run.assumptions.push("tolerances of DESIGN §4.2/§4.3: rounding error of any reasonable implementation in the sample type plus the measured accuracy envelope of statrs' inverse t CDF; errors below that are invisible".into());
    run.assumptions.push("around n = 100 000 (dof within 2 of 100 000) both the t and the normal branch are accepted ('about 100 000')".into());
    // one batch beyond 2^24 observations (the last integer an f32 counter can hold), and the same in f64 as a control
    {
        let mut jobs = vec![];
        let sizes: Vec<usize> = run.tier.pick(vec![(1 << 24) + 4099], vec![(1 << 24) + 1, (1 << 24) + 4099, 20_000_003, (1 << 25) + 7]);
        for (i, &n) in sizes.iter().enumerate() {
            for (j, f32_) in [true, false].into_iter().enumerate() {
                if !f32_ && i > 0 {
                    continue;
                }
                jobs.push(HugeCase { f32: f32_, n, conf: Conf::new(((i + j) % 3) as u8, [0.95, 0.9, 0.3][(i + j) % 3]), style: ((i + j) % 3) as u8 });
                if f32_ {
                    jobs.push(HugeCase { f32: f32_, n, conf: Conf::new(0, 0.99), style: ((i + j + 1) % 3) as u8 });
                }
            }
        }
        let jr = &jobs;
        run.par(jobs.len(), |j, obs| {
            crate::engine::case_on(obs, "huge_batch", &jr[j], huge_case);
        });
        run.require_class("huge_batch/f32");
    }
    crate::props::history::add(run, "C01", &[crate::props::history::ARITH], 3_000, 200_000);
}

pub fn replay(sub: &str, v: &Value, obs: &mut Obs) -> Option<PResult> {
    Some(match sub {
        "history" => crate::props::history::case(&de(v), obs),
        "random" | "large" => case(&de(v), obs),
        "huge_batch" => huge_case(&de(v), obs),
        _ => return None,
    })
}
