//! C14 — intervals are well-formed; accessors / conversions are lossless.

use crate::engine::{Obs, PResult, Run};
use crate::fl::X;
use crate::props::de;
use proptest::prelude::*;
use serde::{Deserialize, Serialize};
use serde_json::{json, Value};
use stats_ci::error::IntervalError;
use stats_ci::Interval;
use std::collections::hash_map::DefaultHasher;
use std::fmt::Debug;
use std::hash::{Hash, Hasher};

fn h<T: Hash>(t: &T) -> u64 {
    let mut s = DefaultHasher::new();
    t.hash(&mut s);
    s.finish()
}

/// laws that need only PartialOrd + Clone (+ Debug): constructors, conversions, accessors, predicates
fn laws_generic<T: PartialOrd + Clone + Debug>(a: T, b: T, obs: &mut Obs) -> PResult {
    let ordered = a <= b;
    let order_class = if a == b { "equal" } else if ordered { "ordered" } else { "inverted" };
    obs.class(&format!("bounds/{order_class}"));
    obs.evals(12);
    // fallible constructors / conversions agree on Ok iff a <= b
    let r_new = Interval::new(a.clone(), b.clone());
    let r_tuple = Interval::try_from((a.clone(), b.clone()));
    let r_opt = Interval::try_from((Some(a.clone()), Some(b.clone())));
    let r_range = Interval::try_from(a.clone()..=b.clone());
    for (name, r) in [("new", &r_new), ("try_from_tuple", &r_tuple), ("try_from_options", &r_opt), ("try_from_range_inclusive", &r_range)] {
        match r {
            Ok(i) => {
                ensure!(ordered, format!("C14/{name}/accepts_inverted"), "{name}({a:?}, {b:?}) = Ok({i:?}) although low > high");
                ensure!(*i == Interval::TwoSided(a.clone(), b.clone()), format!("C14/{name}/value"), "{name}({a:?}, {b:?}) = {i:?}");
                ensure!(i.left() <= i.right(), format!("C14/{name}/not_well_formed"), "{i:?} has low > high");
            }
            Err(IntervalError::InvalidBounds) => {
                ensure!(!ordered, format!("C14/{name}/rejects_valid"), "{name}({a:?}, {b:?}) = Err(InvalidBounds) although low <= high");
            }
            Err(e) => return crate::engine::fail(format!("C14/{name}/wrong_error"), format!("{name}({a:?}, {b:?}) = Err({e:?})")),
        }
    }
    match Interval::<T>::try_from((None, None)) {
        Err(IntervalError::EmptyInterval) => {}
        other => return crate::engine::fail("C14/try_from_options/none_none", format!("try_from((None, None)) = {other:?}")),
    }
    // one-sided constructors and conversions agree
    let up = Interval::new_upper(a.clone());
    let lo = Interval::new_lower(b.clone());
    ensure!(up == Interval::UpperOneSided(a.clone()), "C14/new_upper", "new_upper({a:?}) = {up:?}");
    ensure!(lo == Interval::LowerOneSided(b.clone()), "C14/new_lower", "new_lower({b:?}) = {lo:?}");
    ensure!(Interval::from(a.clone()..) == up, "C14/from_range_from", "from({a:?}..) != new_upper");
    ensure!(Interval::from(..=b.clone()) == lo, "C14/from_range_to_inclusive", "from(..={b:?}) != new_lower");
    ensure!(Interval::try_from((Some(a.clone()), None)).ok().as_ref() == Some(&up), "C14/try_from_options/some_none", "(Some({a:?}), None) does not give new_upper");
    ensure!(Interval::try_from((None, Some(b.clone()))).ok().as_ref() == Some(&lo), "C14/try_from_options/none_some", "(None, Some({b:?})) does not give new_lower");
    // accessors, predicates, option-pair round trip, clone
    let mut all: Vec<(Interval<T>, Option<T>, Option<T>, &str)> = vec![(up, Some(a.clone()), None, "upper"), (lo, None, Some(b.clone()), "lower")];
    if let Ok(i) = r_new {
        all.push((i, Some(a.clone()), Some(b.clone()), "two"));
    }
    // clone_from onto a destination of every kind must yield a copy equal to the source
    for (src, _, _, sk) in all.iter() {
        for (dst0, _, _, dk) in all.iter() {
            obs.eval();
            let mut d = dst0.clone();
            d.clone_from(src);
            ensure!(d == *src, format!("C14/clone_from/{dk}<-{sk}"), "clone_from of {src:?} onto {dst0:?} gives {d:?}");
        }
    }
    for (i, l, r, kind) in all {
        obs.evals(14);
        ensure!(i.low() == l && i.left() == l.as_ref() && i.low_as_ref() == l.as_ref(), format!("C14/accessor_low/{kind}"), "{i:?}: low()={:?} left()={:?} expected {l:?}", i.low(), i.left());
        ensure!(i.high() == r && i.right() == r.as_ref() && i.high_as_ref() == r.as_ref(), format!("C14/accessor_high/{kind}"), "{i:?}: high()={:?} right()={:?} expected {r:?}", i.high(), i.right());
        // the std::ops::RangeBounds view exposes exactly the stored bounds, closed on the bounded sides (round 11)
        {
            use std::ops::{Bound, RangeBounds};
            let want_s = match l.as_ref() {
                Some(x) => Bound::Included(x),
                None => Bound::Unbounded,
            };
            let want_e = match r.as_ref() {
                Some(x) => Bound::Included(x),
                None => Bound::Unbounded,
            };
            ensure!(i.start_bound() == want_s, format!("C14/range_bounds/start/{kind}"), "{i:?}: start_bound() = {:?}, expected {want_s:?}", i.start_bound());
            ensure!(i.end_bound() == want_e, format!("C14/range_bounds/end/{kind}"), "{i:?}: end_bound() = {:?}, expected {want_e:?}", i.end_bound());
            for p in [&a, &b] {
                let inside = l.as_ref().map_or(true, |x| x <= p) && r.as_ref().map_or(true, |x| p <= x);
                let got = <Interval<T> as RangeBounds<T>>::contains(&i, p);
                ensure!(got == inside, format!("C14/range_bounds/contains/{kind}"), "RangeBounds::contains({i:?}, {p:?}) = {got}, the stored bounds say {inside}");
            }
        }
        let preds = (i.is_two_sided(), i.is_upper(), i.is_lower(), i.is_one_sided());
        let want = (kind == "two", kind == "upper", kind == "lower", kind != "two");
        ensure!(preds == want, format!("C14/kind_predicates/{kind}"), "{i:?}: (two, upper, lower, one_sided) = {preds:?}");
        let deg = i.is_degenerate();
        ensure!(deg == (kind == "two" && a == b), format!("C14/is_degenerate/{kind}"), "{i:?}.is_degenerate() = {deg}");
        let c = i.clone();
        ensure!(c == i, format!("C14/clone_eq/{kind}"), "clone of {i:?} is {c:?}");
        let pair: (Option<T>, Option<T>) = i.clone().into();
        ensure!(pair == (l.clone(), r.clone()), format!("C14/into_options/{kind}"), "{i:?} into options = {pair:?}");
        let back = Interval::try_from(pair);
        ensure!(back.as_ref().ok() == Some(&i), format!("C14/options_roundtrip/{kind}"), "{i:?} -> options -> {back:?}");
    }
    // different kinds with the same bound are not equal
    ensure!(Interval::new_upper(a.clone()) != Interval::new_lower(a.clone()), "C14/kinds_distinct", "Upper({a:?}) == Lower({a:?})");
    ensure!(Interval::new_upper(a.clone()) != Interval::TwoSided(a.clone(), a.clone()), "C14/kinds_distinct", "Upper({a:?}) == [{a:?},{a:?}]");
    ensure!(Interval::new_lower(a.clone()) != Interval::TwoSided(a.clone(), a.clone()), "C14/kinds_distinct", "Lower({a:?}) == [{a:?},{a:?}]");
    Ok(())
}

fn laws_hash<T: PartialOrd + Clone + Debug + Hash>(a: T, b: T, obs: &mut Obs) -> PResult {
    obs.evals(3);
    for (i, j) in [
        (Interval::UpperOneSided(a.clone()), Interval::new_upper(a.clone())),
        (Interval::LowerOneSided(b.clone()), Interval::from(..=b.clone())),
    ] {
        ensure!(i == j && h(&i) == h(&j), "C14/hash_eq", "{i:?} and {j:?}: equal intervals must hash equally");
    }
    if a <= b {
        let i = Interval::TwoSided(a.clone(), b.clone());
        let j = Interval::try_from((a.clone(), b.clone())).unwrap();
        let k = i.clone();
        ensure!(i == j && h(&i) == h(&j) && h(&i) == h(&k), "C14/hash_eq", "{i:?}: equal intervals must hash equally");
    }
    Ok(())
}

macro_rules! int_laws {
    ($name:ident, $t:ty, $lowf:ident, $highf:ident, $signed:expr) => {
        fn $name(a: $t, b: $t, obs: &mut Obs) -> PResult {
            laws_generic(a, b, obs)?;
            laws_hash(a, b, obs)?;
            obs.evals(8);
            let up = Interval::new_upper(a);
            let lo = Interval::new_lower(b);
            ensure!(up.$lowf() == a && up.$highf() == <$t>::MAX, "C14/int_projection/upper", "{up:?}: ({}, {})", up.$lowf(), up.$highf());
            ensure!(lo.$lowf() == <$t>::MIN && lo.$highf() == b, "C14/int_projection/lower", "{lo:?}: ({}, {})", lo.$lowf(), lo.$highf());
            let t: ($t, $t) = up.into();
            ensure!(t == (a, <$t>::MAX), "C14/into_tuple/upper", "{up:?} into tuple = {t:?}");
            let t: ($t, $t) = lo.into();
            ensure!(t == (<$t>::MIN, b), "C14/into_tuple/lower", "{lo:?} into tuple = {t:?}");
            ensure!(up.width().is_none() && lo.width().is_none(), "C14/width/one_sided", "width of a one-sided interval must be None");
            if a <= b {
                let i = Interval::new(a, b).unwrap();
                ensure!(i.$lowf() == a && i.$highf() == b, "C14/int_projection/two", "{i:?}: ({}, {})", i.$lowf(), i.$highf());
                let t: ($t, $t) = i.into();
                ensure!(t == (a, b), "C14/into_tuple/two", "{i:?} into tuple = {t:?}");
                let back = Interval::try_from(t);
                ensure!(back.ok() == Some(i), "C14/tuple_roundtrip", "{i:?} -> tuple -> back differs");
                if let Some(w) = b.checked_sub(a) {
                    ensure!(i.width() == Some(w), "C14/width/two", "{i:?}.width() = {:?}, expected {w}", i.width());
                    ensure!((i.width() == Some(0)) == i.is_degenerate(), "C14/width/degenerate", "{i:?}: width {:?} vs is_degenerate {}", i.width(), i.is_degenerate());
                } else {
                    obs.exclude("width whose difference overflows the element type");
                }
            }
            if a > b {
                // bounds stored in the wrong order (reachable through the public variants and through arithmetic on
                // intervals): the accessors still return what is stored, and is_degenerate / width stay consistent
                let i = Interval::TwoSided(a, b);
                ensure!(i.low() == Some(a) && i.high() == Some(b) && i.is_two_sided(), "C14/crossed/accessors", "{i:?}: low {:?} high {:?}", i.low(), i.high());
                ensure!(!i.is_degenerate(), "C14/crossed/is_degenerate", "{i:?} has different bounds but is_degenerate() is true");
                obs.class("crossed-variant");
            }
            let _ = $signed;
            Ok(())
        }
    };
}
int_laws!(laws_i8, i8, low_i, high_i, true);
int_laws!(laws_u8, u8, low_u, high_u, false);
int_laws!(laws_i64, i64, low_i, high_i, true);
int_laws!(laws_u64, u64, low_u, high_u, false);
int_laws!(laws_i16, i16, low_i, high_i, true);
int_laws!(laws_i32, i32, low_i, high_i, true);
int_laws!(laws_i128, i128, low_i, high_i, true);
int_laws!(laws_isize, isize, low_i, high_i, true);
int_laws!(laws_u16, u16, low_u, high_u, false);
int_laws!(laws_u32, u32, low_u, high_u, false);
int_laws!(laws_u128, u128, low_u, high_u, false);
int_laws!(laws_usize, usize, low_u, high_u, false);
/// i128 code -> value of the element type: the extreme codes map to the extremes of the type, others wrap
macro_rules! conv {
    ($t:ty, $v:expr) => {{
        let v: i128 = $v;
        if v == i128::MAX {
            <$t>::MAX
        } else if v == i128::MIN {
            <$t>::MIN
        } else if v == i128::MAX - 1 {
            <$t>::MAX - 1
        } else if v == i128::MIN + 1 {
            <$t>::MIN + 1
        } else {
            v as $t
        }
    }};
}

macro_rules! float_laws {
    ($name:ident, $t:ty) => {
fn $name(a: $t, b: $t, obs: &mut Obs) -> PResult {
    laws_generic(a, b, obs)?;
    obs.evals(6);
    let up = Interval::new_upper(a);
    let lo = Interval::new_lower(b);
    let same = |x: $t, y: $t| x.to_bits() == y.to_bits();
    ensure!(same(up.low_f(), a) && up.high_f() == <$t>::INFINITY, "C14/float_projection/upper", "{up:?}: ({}, {})", up.low_f(), up.high_f());
    ensure!(lo.low_f() == <$t>::NEG_INFINITY && same(lo.high_f(), b), "C14/float_projection/lower", "{lo:?}: ({}, {})", lo.low_f(), lo.high_f());
    let t: ($t, $t) = up.into();
    ensure!(same(t.0, a) && t.1 == <$t>::INFINITY, "C14/into_tuple/upper", "{up:?} into tuple = {t:?}");
    let t: ($t, $t) = lo.into();
    ensure!(t.0 == <$t>::NEG_INFINITY && same(t.1, b), "C14/into_tuple/lower", "{lo:?} into tuple = {t:?}");
    ensure!(up.width().is_none() && lo.width().is_none(), "C14/width/one_sided", "width of a one-sided interval must be None");
    if a <= b {
        let i = Interval::new(a, b).unwrap();
        ensure!(same(i.low_f(), a) && same(i.high_f(), b), "C14/float_projection/two", "{i:?}: ({}, {})", i.low_f(), i.high_f());
        let t: ($t, $t) = i.into();
        ensure!(same(t.0, a) && same(t.1, b), "C14/into_tuple/two", "{i:?} into tuple = {t:?}");
        ensure!(Interval::try_from(t).ok() == Some(i), "C14/tuple_roundtrip", "{i:?} -> tuple -> back differs");
        let w = b - a;
        if !w.is_nan() {
            ensure!(i.width() == Some(w), "C14/width/two", "{i:?}.width() = {:?}, expected {w}", i.width());
            if a == b {
                ensure!(i.is_degenerate() && i.width() == Some(0.0), "C14/width/degenerate", "{i:?}: degenerate must have width 0");
            } else if w == 0.0 {
                obs.exclude("float width that underflows to 0 for distinct bounds");
            } else {
                ensure!(!i.is_degenerate(), "C14/width/degenerate", "{i:?} reported degenerate");
            }
        } else {
            // [inf, inf]: the difference is NaN, but the interval is still two-sided (and degenerate)
            ensure!(i.width().map(|w| w.is_nan()) == Some(true) && i.is_degenerate(), "C14/width/two", "{i:?}: width() = {:?}, is_degenerate() = {} for a two-sided interval with equal infinite bounds", i.width(), i.is_degenerate());
            obs.exclude("value of the width of [inf, inf] (inf - inf)");
        }
    }
    if a > b {
        let i = Interval::TwoSided(a, b);
        ensure!(i.low() == Some(a) && i.high() == Some(b) && i.is_two_sided(), "C14/crossed/accessors", "{i:?}: low {:?} high {:?}", i.low(), i.high());
        ensure!(!i.is_degenerate(), "C14/crossed/is_degenerate", "{i:?} has different bounds but is_degenerate() is true");
        obs.class("crossed-variant");
    }
    Ok(())
}
    };
}
float_laws!(laws_f64, f64);
float_laws!(laws_f32, f32);

#[derive(Clone, Debug, Serialize, Deserialize)]
pub struct IntPair {
    pub ty: String,
    pub a: i128,
    pub b: i128,
}
#[derive(Clone, Debug, Serialize, Deserialize)]
pub struct FloatPair {
    pub a: X,
    pub b: X,
    #[serde(default)]
    pub f32: bool,
}
#[derive(Clone, Debug, Serialize, Deserialize)]
pub struct StrPair {
    pub a: String,
    pub b: String,
}
#[derive(Clone, Debug, Serialize, Deserialize)]
pub struct CharPair {
    pub a: char,
    pub b: char,
}

pub fn int_case(c: &IntPair, obs: &mut Obs) -> PResult {
    obs.nontrivial(&(&c.ty, c.a, c.b));
    match c.ty.as_str() {
        "i8" => laws_i8(c.a as i8, c.b as i8, obs),
        "u8" => laws_u8(c.a as u8, c.b as u8, obs),
        "i64" => laws_i64(c.a as i64, c.b as i64, obs),
        "u64" => laws_u64(c.a as u64, c.b as u64, obs),
        "i16" => laws_i16(conv!(i16, c.a), conv!(i16, c.b), obs),
        "i32" => laws_i32(conv!(i32, c.a), conv!(i32, c.b), obs),
        "i128" => laws_i128(conv!(i128, c.a), conv!(i128, c.b), obs),
        "isize" => laws_isize(conv!(isize, c.a), conv!(isize, c.b), obs),
        "u16" => laws_u16(conv!(u16, c.a), conv!(u16, c.b), obs),
        "u32" => laws_u32(conv!(u32, c.a), conv!(u32, c.b), obs),
        "u128" => laws_u128(conv!(u128, c.a), conv!(u128, c.b), obs),
        "usize" => laws_usize(conv!(usize, c.a), conv!(usize, c.b), obs),
        t => crate::engine::fail("INFRA/harness_panic", format!("unknown type {t}")),
    }
}
pub fn float_case(c: &FloatPair, obs: &mut Obs) -> PResult {
    obs.nontrivial(&(c.a.0.to_bits(), c.b.0.to_bits()));
    if obs.wants_sample("f64") {
        obs.sample("f64", || json!({"a": c.a, "b": c.b}));
    }
    if c.f32 {
        obs.class("float/f32");
        laws_f32(c.a.0 as f32, c.b.0 as f32, obs)
    } else {
        laws_f64(c.a.0, c.b.0, obs)
    }
}
pub fn str_case(c: &StrPair, obs: &mut Obs) -> PResult {
    obs.nontrivial(&(&c.a, &c.b));
    if obs.wants_sample("str") {
        obs.sample("str", || json!({"a": c.a, "b": c.b}));
    }
    laws_generic(c.a.as_str(), c.b.as_str(), obs)?;
    laws_hash(c.a.as_str(), c.b.as_str(), obs)?;
    laws_generic(c.a.clone(), c.b.clone(), obs)?;
    laws_hash(c.a.clone(), c.b.clone(), obs)
}
pub fn char_case(c: &CharPair, obs: &mut Obs) -> PResult {
    obs.nontrivial(&(c.a, c.b));
    laws_generic(c.a, c.b, obs)?;
    laws_hash(c.a, c.b, obs)
}

fn f64_any() -> impl Strategy<Value = f64> {
    prop_oneof![
        3 => any::<u64>().prop_map(f64::from_bits).prop_filter("NaN is outside C14's quantifier", |x| !x.is_nan()),
        2 => (-8i32..=8).prop_map(|i| i as f64 * 0.25),
        2 => prop::sample::select(vec![0.0, -0.0, f64::INFINITY, f64::NEG_INFINITY, f64::MAX, f64::MIN, 5e-324, -5e-324, f64::MIN_POSITIVE]),
    ]
}

pub fn run(run: &mut Run) {
    run.technique = "bounded exhaustive enumeration (all i8 and u8 bound pairs) + proptest random search over i64/u64/f64/char/&str/String; oracle = round-trip and consistency laws".into();
    run.rule = "all 65 536 (a,b) pairs of i8 and of u8 through every constructor, conversion and accessor; random i64/u64 and the eight other integer element types (i16 … i128, isize, u16 … u128, usize; with MIN/MAX), f64 and f32 (±0, ±inf, subnormals; no NaN), char, &str/String pairs; every pair is non-trivial; distinct = (type, a, b)".into();
    run.par(512, |shard, obs| {
        let ty = if shard < 256 { "i8" } else { "u8" };
        let ai = (shard % 256) as i128;
        let a = if ty == "i8" { ai - 128 } else { ai };
        for bi in 0..256i128 {
            let b = if ty == "i8" { bi - 128 } else { bi };
            crate::engine::case_on(obs, "int", &IntPair { ty: ty.into(), a, b }, int_case);
        }
    });
    run.exhaustive = true;
    run.exhaustive_parts.push("all (a,b) in i8 x i8 and u8 x u8".into());
    let n = run.tier.pick(100_000, 3_000_000);
    let i64s = prop_oneof![3 => any::<i64>(), 2 => -3i64..=3, 1 => prop::sample::select(vec![i64::MIN, i64::MAX, i64::MIN + 1, i64::MAX - 1])];
    let s = (i64s.clone(), i64s).prop_map(|(a, b)| IntPair { ty: "i64".into(), a: a as i128, b: b as i128 });
    run.prop("int", n, s, int_case);
    let u64s = prop_oneof![3 => any::<u64>(), 2 => 0u64..=6, 1 => prop::sample::select(vec![0u64, u64::MAX, u64::MAX - 1])];
    let s = (u64s.clone(), u64s).prop_map(|(a, b)| IntPair { ty: "u64".into(), a: a as i128, b: b as i128 });
    run.prop("int_u64", n, s, int_case);
    // the remaining eight integer element types of the tuple conversions and projections
    let wide = || prop_oneof![3 => any::<i128>(), 2 => -3i128..=3, 2 => prop::sample::select(vec![i128::MIN, i128::MAX, i128::MIN + 1, i128::MAX - 1, 0])];
    let s = (prop::sample::select(vec!["i16", "i32", "i128", "isize", "u16", "u32", "u128", "usize"]), wide(), wide()).prop_map(|(ty, a, b)| IntPair { ty: ty.into(), a, b });
    run.prop("int_other", n, s, |c, obs| {
        obs.class(&format!("int/{}", c.ty));
        int_case(c, obs)
    });
    let s = (f64_any(), f64_any(), prop::bool::weighted(0.3)).prop_map(|(a, b, f32_)| FloatPair { a: X(if f32_ { (a as f32) as f64 } else { a }), b: X(if f32_ { (b as f32) as f64 } else { b }), f32: f32_ });
    run.prop("float", n, s, float_case);
    let s = ("[a-c]{0,3}", "[a-c]{0,3}").prop_map(|(a, b)| StrPair { a, b });
    run.prop("str", n / 4, s, str_case);
    let s = (any::<char>(), any::<char>()).prop_map(|(a, b)| CharPair { a, b });
    run.prop("char", n / 4, s, char_case);
    for c in ["bounds/equal", "bounds/ordered", "bounds/inverted", "int/isize", "int/usize", "int/i128", "int/u128", "int/i16", "int/u16", "int/i32", "int/u32", "float/f32", "crossed-variant"] {
        run.require_class(c);
    }
    run.assumptions.push("NaN bounds are outside the quantifier; that intervals of different kinds hash differently is not required and not asserted".into());
}

pub fn replay(sub: &str, v: &Value, obs: &mut Obs) -> Option<PResult> {
    Some(match sub {
        "int" | "int_u64" | "int_other" => int_case(&de(v), obs),
        "float" => float_case(&de(v), obs),
        "str" => str_case(&de(v), obs),
        "char" => char_case(&de(v), obs),
        _ => return None,
    })
}
