//! C04 — paired CI = mean CI of differences; unpaired CI = documented Welch-type interval.

use crate::engine::{Obs, PResult, Run};
use crate::fl::Fl;
use crate::gen::{self, Sample};
use crate::meanref::{cdf_tol_t_at, crit, MeanRef, CDF_TOL_Z, POPULATION_LIMIT};
use crate::model::{bits_eq, bounds, call, ek, Conf, Out, EK};
use crate::props::de;
use crate::refmath as rm;
use proptest::prelude::*;
use serde::{Deserialize, Serialize};
use serde_json::{json, Value};
use stats_ci::comparison::{Paired, Unpaired};
use stats_ci::error::CIError;
use stats_ci::mean::Arithmetic;
use stats_ci::{Interval, StatisticsOps};

#[derive(Clone, Debug, Serialize, Deserialize)]
pub struct Case {
    pub a: Sample,
    pub b: Sample,
    pub conf: Conf,
    pub style: u8,
    pub cuts: Vec<u16>,
}

pub const PAIRED_STYLES: [&str; 7] = ["Paired::ci", "default+extend", "extend_tuple", "append_pair_loop", "chunked_mixture", "Paired::ci(sparse containers)", "extend(sparse containers)"];
pub const UNPAIRED_STYLES: [&str; 10] = ["Unpaired::ci", "from_iter+ci_mean", "default+extend", "extend_a+extend_b", "append_a/append_b", "append_pair+rest", "new(two Arithmetic states)", "stats_a_mut/stats_b_mut", "Unpaired::ci(sparse containers)", "from_iter(sparse containers)"];

fn to_f<F: Fl>(s: &Sample) -> Vec<F> {
    s.data.iter().map(|x| F::from64(x.0)).collect()
}

pub fn paired_style<F: Fl>(style: u8, conf: &Conf, a: &Vec<F>, b: &Vec<F>, cuts: &[u16]) -> Out<(Interval<F>, F, usize)> {
    let c = conf.get();
    call(|| {
        let mut p = Paired::<F>::default();
        match style {
            0 => {
                let i = Paired::<F>::ci(c, a, b)?;
                // statistics of a state fed the same way
                p.extend(a, b)?;
                return Ok((i, p.sample_mean(), p.sample_count()));
            }
            1 => p.extend(a, b)?,
            5 => {
                // containers whose iterators have loose (and different) size_hint upper bounds
                let (sa, sb) = (gen::sparse(a, 3 + a.len() as u64, 1 + cuts.len()), gen::sparse(b, 5 + b.len() as u64, 3));
                let i = Paired::<F>::ci(c, &sa, &sb)?;
                p.extend(&sa, &sb)?;
                return Ok((i, p.sample_mean(), p.sample_count()));
            }
            6 => {
                let (sa, sb) = (gen::sparse(a, 13 + a.len() as u64, 2), gen::sparse(b, 17 + b.len() as u64, 1 + cuts.len()));
                p.extend(&sa, &sb)?
            }
            2 => {
                let t: Vec<(F, F)> = a.iter().copied().zip(b.iter().copied()).collect();
                p.extend_tuple(&t)?;
            }
            3 => {
                for (x, y) in a.iter().zip(b.iter()) {
                    p.append_pair(*x, *y)?;
                }
            }
            _ => {
                let n = a.len().min(b.len());
                let cp = gen::cut_points(cuts, n);
                let mut prev = 0;
                for (j, &cpt) in cp.iter().chain(std::iter::once(&n)).enumerate() {
                    let (ca, cb) = (a[prev..cpt].to_vec(), b[prev..cpt].to_vec());
                    match j % 3 {
                        0 => p.extend(&ca, &cb)?,
                        1 => {
                            let t: Vec<(F, F)> = ca.iter().copied().zip(cb.iter().copied()).collect();
                            p.extend_tuple(&t)?
                        }
                        _ => {
                            for (x, y) in ca.iter().zip(cb.iter()) {
                                p.append_pair(*x, *y)?;
                            }
                        }
                    }
                    prev = cpt;
                }
            }
        }
        Ok((p.ci_mean(c)?, p.sample_mean(), p.sample_count()))
    })
}

fn paired_generic<F: Fl>(c: &Case, obs: &mut Obs) -> PResult {
    let n = c.a.len().min(c.b.len());
    let a: Vec<F> = to_f::<F>(&c.a)[..n].to_vec();
    let b: Vec<F> = to_f::<F>(&c.b)[..n].to_vec();
    let style = c.style % 7;
    let sname = PAIRED_STYLES[style as usize];
    obs.eval();
    obs.class(&format!("paired/{}/{}/{}", F::NAME, gen::n_bucket(n), c.conf.kind_name()));
    obs.class(&format!("paired/style/{sname}"));
    // oracle: Arithmetic over the differences, computed with the same subtraction in the same order
    let d: Vec<F> = a.iter().zip(b.iter()).map(|(x, y)| *x - *y).collect();
    let want = call(|| {
        let s = <Arithmetic<F> as StatisticsOps<F>>::from_iter(&d)?;
        Ok((s.ci_mean(c.conf.get())?, s.sample_mean(), s.sample_count()))
    });
    let got = paired_style::<F>(style, &c.conf, &a, &b, &c.cuts);
    match (&got, &want) {
        (Out::Ok((gi, gm, gc)), Out::Ok((wi, wm, wc))) => {
            ensure!(bits_eq(gi, wi), format!("C04/paired/{sname}/interval"), "{sname} ({}, n={n}, {:?}) = {gi:?}, arithmetic-mean CI of the differences a_i - b_i = {wi:?}", F::NAME, c.conf);
            ensure!(gm.bits64() == wm.bits64(), format!("C04/paired/{sname}/sample_mean"), "{sname}: sample_mean {gm:?}, mean of differences {wm:?}");
            ensure!(gc == wc && *gc == n, format!("C04/paired/{sname}/sample_count"), "{sname}: sample_count {gc}, expected {n}");
            let nonconst = d.iter().any(|x| *x != d[0]);
            if nonconst {
                obs.nontrivial(&("paired", F::IS32, style, c.conf.kind, c.conf.l().to_bits(), crate::engine::hash_of(&d.iter().map(|x| x.bits64()).collect::<Vec<_>>())));
            }
            if obs.wants_sample(&format!("paired/{}", F::NAME)) {
                obs.sample(&format!("paired/{}", F::NAME), || json!({"type": F::NAME, "n": n, "a_first": a.iter().take(4).map(|x| x.to64()).collect::<Vec<_>>(), "b_first": b.iter().take(4).map(|x| x.to64()).collect::<Vec<_>>(), "conf": c.conf, "style": sname, "result": format!("{gi:?}")}));
            }
            // mirror: exchanging the samples negates and mirrors the interval, exchanging one-sidedness
            let sw = paired_style::<F>(0, &c.conf.flipped(), &b, &a, &[]);
            if let Out::Ok((si, _, _)) = sw {
                mirror_check::<F>("paired", gi, &si, obs)?;
            } else {
                return crate::engine::fail("C04/paired/mirror", format!("Paired::ci(flipped, b, a) = {}", sw.describe()));
            }
            Ok(())
        }
        (g, w) => crate::engine::fail(format!("C04/paired/{sname}/outcome"), format!("{sname} ({}, n={n}) = {}, arithmetic on differences = {}", F::NAME, g.describe(), w.describe())),
    }
}

/// b must be the negated mirror image of a, with upper/lower exchanged; <= 2 ulp
fn mirror_check<F: Fl>(what: &str, a: &Interval<F>, b: &Interval<F>, obs: &mut Obs) -> PResult {
    let (ka, la, ha) = bounds(a);
    let (kb, lb, hb) = bounds(b);
    let want_kind = [0u8, 2, 1][ka as usize];
    ensure!(kb == want_kind, format!("C04/{what}/mirror_kind"), "exchanging the samples turns {a:?} into {b:?}: one-sidedness must be exchanged");
    let ul = |x: f64, y: f64| if x.is_infinite() || y.is_infinite() { if x == y { 0 } else { u64::MAX } } else { F::ulps_between(F::from64(x), F::from64(y)) };
    let d = ul(-ha, lb).max(ul(-la, hb));
    ensure!(d <= 2, format!("C04/{what}/mirror"), "exchanging the samples turns {a:?} into {b:?}, expected the negated mirror image ({d} ulp apart)");
    obs.class(&format!("{what}/mirror/{}", if d == 0 { "bit-exact" } else { "within-2-ulp" }));
    Ok(())
}

// lengths ------------------------------------------------------------------------------------------

#[derive(Clone, Debug, Serialize, Deserialize)]
pub struct LenCase {
    pub f32: bool,
    pub la: usize,
    pub lb: usize,
    /// 0 Paired::ci, 1 default+extend, 2 extend on a state that already holds pairs (fed by extend, extend_tuple and
    /// append_pair): the error still carries the two lengths of the rejected call
    pub entry: u8,
}
pub fn len_case(c: &LenCase, obs: &mut Obs) -> PResult {
    fn go<F: Fl>(c: &LenCase, obs: &mut Obs) -> PResult {
        let a: Vec<F> = (0..c.la).map(|i| F::from64(1.0 + i as f64 * 0.5)).collect();
        let b: Vec<F> = (0..c.lb).map(|i| F::from64(2.0 - i as f64 * 0.25)).collect();
        obs.eval();
        let out = call(|| {
            if c.entry == 0 {
                Paired::<F>::ci(stats_ci::Confidence::new(0.9), &a, &b).map(|_| ())
            } else if c.entry == 1 {
                let mut p = Paired::<F>::default();
                p.extend(&a, &b)
            } else {
                let mut p = Paired::<F>::default();
                let (x, y) = (F::from64(3.0), F::from64(1.0));
                p.extend(&vec![x, y], &vec![y, x])?;
                p.append_pair(x, y)?;
                p.extend_tuple(&vec![(y, x), (x, x)])?;
                p.extend(&a, &b)
            }
        });
        let entry = ["Paired::ci", "Paired::extend", "Paired::extend on a populated state"][c.entry as usize];
        match out {
            Out::Err(CIError::DifferentSampleSizes(x, y)) => {
                ensure!(c.la != c.lb, "C04/paired/lengths/spurious", "{entry} with equal lengths {} reports DifferentSampleSizes", c.la);
                ensure!(x == c.la && y == c.lb, "C04/paired/lengths/payload", "{entry} with lengths ({}, {}) reports DifferentSampleSizes({x}, {y})", c.la, c.lb);
                obs.class(if c.la > c.lb { "lengths/first-longer" } else { "lengths/second-longer" });
                obs.nontrivial(&("len", c.f32, c.la, c.lb, c.entry));
                Ok(())
            }
            Out::Panic(p) if c.la == c.lb => {
                // equal lengths below 2: C11's business (TooFewSamples); not a length question
                let _ = p;
                obs.exclude("equal lengths < 2 (C11)");
                Ok(())
            }
            o => {
                if c.la == c.lb {
                    obs.class("lengths/equal");
                    return Ok(());
                }
                crate::engine::fail("C04/paired/lengths/not_rejected", format!("{entry} with lengths ({}, {}) = {}", c.la, c.lb, match o { Out::Ok(_) => "Ok".to_string(), Out::Err(e) => format!("Err({e:?})"), Out::Panic(p) => format!("panic {p}") }))
            }
        }
    }
    if c.f32 {
        go::<f32>(c, obs)
    } else {
        go::<f64>(c, obs)
    }
}

// unpaired ------------------------------------------------------------------------------------------

pub fn unpaired_style<F: Fl>(style: u8, conf: &Conf, a: &Vec<F>, b: &Vec<F>) -> Out<Interval<F>> {
    let c = conf.get();
    call(|| match style {
        0 => Unpaired::<F>::ci(c, a, b),
        1 => Unpaired::<F>::from_iter(a, b)?.ci_mean(c),
        2 => {
            let mut u = Unpaired::<F>::default();
            u.extend(a, b)?;
            u.ci_mean(c)
        }
        3 => {
            let mut u = Unpaired::<F>::default();
            u.extend_b(b)?;
            u.extend_a(a)?;
            u.ci_mean(c)
        }
        4 => {
            let mut u = Unpaired::<F>::default();
            let m = a.len().max(b.len());
            for i in 0..m {
                if i < b.len() {
                    u.append_b(b[i])?;
                }
                if i < a.len() {
                    u.append_a(a[i])?;
                }
            }
            u.ci_mean(c)
        }
        5 => {
            let mut u = Unpaired::<F>::default();
            let m = a.len().min(b.len());
            for i in 0..m {
                u.append_pair(a[i], b[i])?;
            }
            let (ra, rb) = (a[m..].to_vec(), b[m..].to_vec());
            u.extend_a(&ra)?;
            u.extend_b(&rb)?;
            u.ci_mean(c)
        }
        8 => {
            let (sa, sb) = (gen::sparse(a, 23 + a.len() as u64, 2), gen::sparse(b, 29 + b.len() as u64, 4));
            Unpaired::<F>::ci(c, &sa, &sb)
        }
        9 => {
            let (sa, sb) = (gen::sparse(a, 31 + a.len() as u64, 1), gen::sparse(b, 37 + b.len() as u64, 2));
            Unpaired::<F>::from_iter(&sa, &sb)?.ci_mean(c)
        }
        6 => {
            let sa = <Arithmetic<F> as StatisticsOps<F>>::from_iter(a)?;
            let sb = <Arithmetic<F> as StatisticsOps<F>>::from_iter(b)?;
            Unpaired::new(sa, sb).ci_mean(c)
        }
        _ => {
            let mut u = Unpaired::<F>::default();
            for x in a.iter() {
                StatisticsOps::append(u.stats_a_mut(), *x)?;
            }
            StatisticsOps::extend(u.stats_b_mut(), b)?;
            ensure_counts(&u, a.len(), b.len())?;
            u.ci_mean(c)
        }
    })
}
fn ensure_counts<F: Fl>(u: &Unpaired<F>, na: usize, nb: usize) -> Result<(), CIError> {
    if u.stats_a().sample_count() != na || u.stats_b().sample_count() != nb {
        return Err(CIError::Error(format!("harness: counts ({}, {}) expected ({na}, {nb})", u.stats_a().sample_count(), u.stats_b().sample_count())));
    }
    Ok(())
}

/// the crate's documented effective degrees of freedom
pub fn eff_dof(ta: f64, tb: f64, na: f64, nb: f64) -> f64 {
    // evaluated on the shares ta/(ta+tb), tb/(ta+tb) so that the reference itself cannot overflow or underflow
    let (ra, rb) = (ta / (ta + tb), tb / (ta + tb));
    1.0 / (ra * ra / (na + 1.0) + rb * rb / (nb + 1.0)) - 2.0
}

/// reference for the unpaired interval: expected bounds and tolerance; None when outside the domain
pub struct UnpairedRef {
    pub dof: f64,
    pub c: f64,
    pub se: f64,
    pub diff: f64,
    pub tol: f64,
}
pub fn unpaired_ref<F: Fl>(ra: &MeanRef, rb: &MeanRef, conf: &Conf) -> Option<UnpairedRef> {
    let (na, nb) = (ra.n as f64, rb.n as f64);
    let (ta, tb) = (ra.var / na, rb.var / nb);
    if !(ta + tb > 0.0) {
        return None;
    }
    let se = (ta + tb).sqrt();
    let dof = eff_dof(ta, tb, na, nb);
    // uncertainty of the computed variances moves the dof: evaluate it at the corners
    let (dta, dtb) = (ra.dv::<F>(0) / na, rb.dv::<F>(0) / nb);
    let mut dmin = dof;
    let mut dmax = dof;
    for sa in [-1.0, 1.0] {
        for sb in [-1.0, 1.0] {
            let (xa, xb) = ((ta + sa * dta).max(0.0), (tb + sb * dtb).max(0.0));
            if xa + xb > 0.0 {
                let d = eff_dof(xa, xb, na, nb);
                dmin = dmin.min(d);
                dmax = dmax.max(d);
            }
        }
    }
    let rel = 32.0 * F::U;
    dmin = (dmin - rel * (dmin.abs() + 2.0)).max(1.0);
    dmax += rel * (dmax.abs() + 2.0);
    let cr = crit(dof.max(1.0), conf);
    // band around the switch: the uncertainty of the dof may cross it
    let crosses = (dmin < POPULATION_LIMIT + 2.0) && (dmax >= POPULATION_LIMIT - 2.0);
    let c_lo = crit(dmax.max(1.0), conf).c;
    let c_hi = crit(dmin.max(1.0), conf).c;
    let mut dc_dof = (c_lo - cr.c).abs().max((c_hi - cr.c).abs());
    if crosses {
        let z = crate::meanref::crit_z(conf).c;
        let t = crate::meanref::crit_t(dof.max(1.0).min(POPULATION_LIMIT - 1.0), conf).c;
        dc_dof = dc_dof.max((z - t).abs() * 1.5);
    }
    let dens = if dof < POPULATION_LIMIT { rm::t_pdf(dof.max(1.0), cr.c) } else { rm::norm_pdf(cr.c) };
    let dc_q = if dof < POPULATION_LIMIT { cdf_tol_t_at(dmax, cr.c) / dens } else { CDF_TOL_Z / dens } + 4e-16 * cr.c.abs();
    let diff = ra.mean - rb.mean;
    let u = F::U;
    // the two quotients s^2/n are formed in the sample's float type: when they are below its normal range each is
    // rounded to a multiple of the smallest subnormal eta, an absolute error on se^2 that no relative term covers
    let eta = if F::IS32 { crate::fl::pow2(-149) } else { crate::fl::pow2(-1074) };
    let dse = (dta + dtb + 2.0 * eta) / (2.0 * se) * 1.01 + 6.0 * u * se;
    let cabs = cr.c.abs();
    let tol = 2.0 * (ra.tol_mean::<F>(0) + rb.tol_mean::<F>(0) + 2.0 * u * (diff.abs() + cabs * se) + cabs * dse + 8.0 * f64::EPSILON * (ra.mean.abs() + rb.mean.abs() + cabs * se)) + se * (dc_q + dc_dof) + f64::MIN_POSITIVE;
    if tol.is_nan() || dof.is_nan() {
        // the error model itself overflowed (a constant sample at the very top of the magnitude range makes the bound
        // on its computed variance infinite): the reference cannot be resolved there
        return None;
    }
    Some(UnpairedRef { dof, c: cr.c, se, diff, tol })
}

fn unpaired_generic<F: Fl>(c: &Case, obs: &mut Obs) -> PResult {
    let a: Vec<F> = to_f::<F>(&c.a);
    let b: Vec<F> = to_f::<F>(&c.b);
    let (na, nb) = (a.len(), b.len());
    let style = c.style % 10;
    let sname = UNPAIRED_STYLES[style as usize];
    obs.eval();
    obs.class(&format!("unpaired/{}/{}+{}/{}", F::NAME, gen::n_bucket(na), gen::n_bucket(nb), c.conf.kind_name()));
    obs.class(&format!("unpaired/style/{sname}"));
    let base = unpaired_style::<F>(0, &c.conf, &a, &b);
    let got = unpaired_style::<F>(style, &c.conf, &a, &b);
    let (gi, bi) = match (&got, &base) {
        (Out::Ok(g), Out::Ok(b)) => (g, b),
        (g, b) => return crate::engine::fail(format!("C04/unpaired/{sname}/outcome"), format!("{sname} ({}, na={na}, nb={nb}, {:?}) = {}, Unpaired::ci = {}", F::NAME, c.conf, g.describe(), b.describe())),
    };
    ensure!(bits_eq(gi, bi), format!("C04/unpaired/{sname}/differs_from_ci"), "{sname} ({}, na={na}, nb={nb}, {:?}) = {gi:?} but Unpaired::ci = {bi:?}", F::NAME, c.conf);
    let (k, lo, hi) = bounds(gi);
    ensure!(k == c.conf.kind, "C04/unpaired/kind", "{sname}: {gi:?} for {:?}", c.conf);
    ensure!(!lo.is_nan() && !hi.is_nan() && lo <= hi, "C04/unpaired/malformed", "{sname}: {gi:?}");
    // mirror
    let sw = unpaired_style::<F>(0, &c.conf.flipped(), &b, &a);
    match sw {
        Out::Ok(si) => mirror_check::<F>("unpaired", gi, &si, obs)?,
        o => return crate::engine::fail("C04/unpaired/mirror", format!("Unpaired::ci(flipped, b, a) = {}", o.describe())),
    }
    // reference
    let ra = MeanRef::new(&c.a.v64());
    let rb = MeanRef::new(&c.b.v64());
    let both_const = ra.constant && rb.constant;
    let cond = (ra.conditioned::<F>(0) || ra.constant) && (rb.conditioned::<F>(0) || rb.constant) && !both_const;
    if !cond {
        obs.exclude(if both_const { "both samples constant (0/0 dof: outside the formula's domain; C11 checks no NaN)" } else { "ill_conditioned sample (only kind, order, mirror and agreement of the feeding styles are checked)" });
        return Ok(());
    }
    let Some(r) = unpaired_ref::<F>(&ra, &rb, &c.conf) else {
        return Ok(());
    };
    let (elo, ehi) = (r.diff - r.c * r.se, r.diff + r.c * r.se);
    let below = if c.conf.kind != 0 && c.conf.l() < 0.5 { "/level_below_half" } else { "" };
    for (name, g, e, finite) in [("low", lo, elo, k != 2), ("high", hi, ehi, k != 1)] {
        if !finite {
            continue;
        }
        let d = (g - e).abs();
        ensure!(d <= r.tol, format!("C04/unpaired/bounds/{}{below}", c.conf.kind_name()), "{sname} ({}, na={na}, nb={nb}, {:?}): {name} bound {g:e}, reference {e:e} (diff {d:e} > tol {:e}; mean diff {:e}, se {:e}, dof {}, c {})", F::NAME, c.conf, r.tol, r.diff, r.se, r.dof, r.c);
        obs.headroom(&format!("unpaired/{}", F::NAME), d / r.tol, || json!({"na": na, "nb": nb, "conf": c.conf, "dof": r.dof}));
    }
    if c.a.shape == "tied-sd" {
        obs.class(if ra.var == rb.var { "unpaired/tied-standard-deviations" } else { "unpaired/tied-sd-generator-missed" });
    }
    let resolves = r.tol < 1e-3 * r.c.abs() * r.se;
    if !ra.constant && !rb.constant && resolves {
        obs.nontrivial(&("unpaired", F::IS32, c.conf.kind, c.conf.l().to_bits(), crate::engine::hash_of(&(c.a.v64().iter().map(|x| x.to_bits()).collect::<Vec<_>>(), c.b.v64().iter().map(|x| x.to_bits()).collect::<Vec<_>>()))));
        let ratio = (ra.var / rb.var).log2().abs();
        obs.class(&format!("unpaired/nontrivial/{}/{}", F::NAME, if na == nb { "equal-sizes" } else { "unequal-sizes" }));
        obs.class(if ratio < 1.0 { "unpaired/variance-ratio<2" } else if ratio < 10.0 { "unpaired/variance-ratio<2^10" } else { "unpaired/variance-ratio>=2^10" });
        if obs.wants_sample(&format!("unpaired/{}", F::NAME)) {
            obs.sample(&format!("unpaired/{}", F::NAME), || json!({"type": F::NAME, "na": na, "nb": nb, "conf": c.conf, "style": sname, "effective_dof": r.dof, "critical_value": r.c, "result": format!("{gi:?}"), "reference": [elo, ehi]}));
        }
    } else if ra.constant || rb.constant {
        obs.class("unpaired/one-constant-sample");
    }
    Ok(())
}

pub fn paired_case(c: &Case, obs: &mut Obs) -> PResult {
    if c.a.f32 {
        paired_generic::<f32>(c, obs)
    } else {
        paired_generic::<f64>(c, obs)
    }
}
pub fn unpaired_case(c: &Case, obs: &mut Obs) -> PResult {
    if c.a.f32 {
        unpaired_generic::<f32>(c, obs)
    } else {
        unpaired_generic::<f64>(c, obs)
    }
}

fn constant_sample(f32_: bool) -> impl Strategy<Value = Sample> {
    (2usize..40, -1000i32..1000, -10i32..10).prop_map(move |(n, m, e)| {
        let v = m as f64 * crate::fl::pow2(e) + 0.1;
        let v = if f32_ { (v as f32) as f64 } else { v };
        Sample { f32: f32_, shape: "constant".into(), data: crate::fl::xs(&vec![v; n]) }
    })
}
/// two samples of different sizes whose standard deviations tie exactly: p copies of +d, p copies of -d and one 0
/// (variance d^2 for every p), shifted by small integers and scaled by a power of two — all arithmetic exact
pub fn tied_sd_pair(f32_: bool) -> impl Strategy<Value = (Sample, Sample)> {
    (1usize..12, 1usize..12, -6i32..=6, -6i32..=6, -8i32..=8, prop::collection::vec(any::<u16>(), 24)).prop_map(move |(pa, pb, sa, sb, e, perm)| {
        let mk = |p: usize, shift: i32| -> Vec<f64> {
            let mut v: Vec<f64> = vec![shift as f64];
            for _ in 0..p {
                v.push(shift as f64 + 1.0);
                v.push(shift as f64 - 1.0);
            }
            let v: Vec<f64> = v.into_iter().map(|x| x * crate::fl::pow2(e)).collect();
            gen::permute(&v, &perm)
        };
        let pb = if pb == pa { pb + 1 } else { pb };
        (Sample { f32: f32_, shape: "tied-sd".into(), data: crate::fl::xs(&mk(pa, sa)) }, Sample { f32: f32_, shape: "tied-sd".into(), data: crate::fl::xs(&mk(pb, sb)) })
    })
}
pub fn strategy(max_n: usize) -> impl Strategy<Value = Case> {
    any::<bool>().prop_flat_map(move |f32_| {
        let s = move || prop_oneof![12 => gen::sample_of(f32_, max_n, false).boxed(), 1 => constant_sample(f32_).boxed()];
        let pair = prop_oneof![19 => (s(), s()).boxed(), 1 => tied_sd_pair(f32_).boxed()];
        (pair, gen::conf(), 0u8..70, gen::cuts(4)).prop_map(|((a, b), conf, style, cuts)| Case { a, b, conf, style, cuts })
    })
}

pub fn run(run: &mut Run) {
    run.technique = "proptest random search with shrinking; paired: differential bit-equality against Arithmetic on the differences; unpaired: exact-arithmetic reference with the documented effective dof and an independent t quantile; metamorphic mirror relation".into();
    run.rule = "pairs of generated samples (f32/f64, sizes 2..2000 equal and unequal, independent scales giving variance ratios up to 2^±60, occasionally one constant sample) x confidences x 7 paired / 10 unpaired feeding styles (incl. containers whose iterators have loose size_hint bounds); all length pairs (0..6)^2 for the DifferentSampleSizes rule; non-trivial = non-constant differences (paired), both samples non-constant, inside the conditioning domain and tolerance < 0.1 % of the half-width (unpaired)".into();
    crate::meanref::selftest_into(run);
    let (cases, shards, max_n) = match run.tier {
        crate::engine::Tier::Quick => (60_000u32, 32usize, 1000usize),
        crate::engine::Tier::Thorough => (2_400_000, 256, 5000),
    };
    let seed = run.seed_for("random", 0);
    run.par(shards, |shard, obs| {
        let sd = crate::engine::mix(seed, "shard", shard as u64);
        crate::engine::prop_on(obs, "paired", cases / shards as u32, sd, strategy(max_n), paired_case);
        crate::engine::prop_on(obs, "unpaired", cases / shards as u32, sd ^ 0x55, strategy(max_n), unpaired_case);
    });
    // large and unbalanced sizes around the t -> z switch: the documented dof depends on both samples
    let big: Vec<(usize, usize)> = match run.tier {
        crate::engine::Tier::Quick => vec![(100_001, 2), (2, 100_001), (150_000, 7), (100_001, 100_003), (99_999, 3)],
        crate::engine::Tier::Thorough => vec![(100_001, 2), (2, 100_001), (150_000, 7), (7, 150_000), (100_001, 100_003), (99_999, 3), (100_000, 2), (100_002, 5), (300_000, 40), (120_000, 99_999), (250_000, 250_000)],
    };
    let seed_big = run.seed_for("large", 0);
    let big_ref = &big;
    run.par(big.len() * 6, |j, obs| {
        let (na, nb) = big_ref[j / 6];
        let f32_ = j % 2 == 1;
        let kind = ((j / 2) % 3) as u8;
        let r = -(1i32 << 20)..=(1i32 << 20);
        let s = (prop::collection::vec((r.clone(), r.clone()), na..=na), prop::collection::vec((r.clone(), r), nb..=nb), gen::level(), 0usize..6, 0usize..6, -8i32..=8).prop_map(move |(ra, rb, level, sa, sb, eb)| Case {
            a: Sample { f32: f32_, shape: gen::SHAPES[sa].into(), data: crate::fl::xs(&gen::build_values(f32_, sa, 3, false, 0, &ra)) },
            b: Sample { f32: f32_, shape: gen::SHAPES[sb].into(), data: crate::fl::xs(&gen::build_values(f32_, sb, 5, true, eb, &rb)) },
            conf: Conf::new(kind, level),
            style: (j % 10) as u8,
            cuts: vec![],
        });
        for c in crate::engine::draw(&s, crate::engine::mix(seed_big, "large", j as u64), 1) {
            crate::engine::case_on(obs, "unpaired", &c, unpaired_case);
        }
    });
    for f32_ in [false, true] {
        for la in 0..7usize {
            for lb in 0..7usize {
                for entry in 0..3u8 {
                    run.case("lengths", &LenCase { f32: f32_, la, lb, entry }, len_case);
                }
            }
        }
        for (la, lb) in [(100usize, 99usize), (99, 100), (1000, 3), (3, 1000)] {
            run.case("lengths", &LenCase { f32: f32_, la, lb, entry: 0 }, len_case);
        }
    }
    for s in PAIRED_STYLES {
        run.require_class(&format!("paired/style/{s}"));
    }
    for s in UNPAIRED_STYLES {
        run.require_class(&format!("unpaired/style/{s}"));
    }
    for c in ["lengths/first-longer", "lengths/second-longer", "unpaired/nontrivial/f32/unequal-sizes", "unpaired/nontrivial/f64/equal-sizes", "unpaired/one-constant-sample", "unpaired/variance-ratio>=2^10", "unpaired/tied-standard-deviations", "unpaired/f64/n>=100000+n2-9/two", "unpaired/f32/n2-9+n>=100000/lower", "unpaired/mirror/bit-exact", "paired/mirror/bit-exact"] {
        run.require_class(c);
    }
    run.assumptions.push("correctness of Arithmetic itself is C01's business; the paired check is a differential one".into());
    run.assumptions.push("the effective dof is the crate's documented formula (.../(n+1) ... - 2), not textbook Welch–Satterthwaite; its sensitivity to the rounding of the variances is bounded numerically and added to the tolerance".into());
    let _ = (ek, EK::TooFewSamples);
    crate::props::history::add(run, "C04", &[crate::props::history::PAIRED, crate::props::history::UNPAIRED, crate::props::history::ARITH], 3_000, 200_000);
}

pub fn replay(sub: &str, v: &Value, obs: &mut Obs) -> Option<PResult> {
    Some(match sub {
        "history" => crate::props::history::case(&de(v), obs),
        "paired" => paired_case(&de(v), obs),
        "unpaired" => unpaired_case(&de(v), obs),
        "lengths" => len_case(&de(v), obs),
        _ => return None,
    })
}
