//! Shared proptest strategies (DESIGN §5). Every random choice goes through proptest.

use crate::fl::{xs, X};
use crate::model::Conf;
use proptest::prelude::*;
use serde::{Deserialize, Serialize};

pub const LEVEL_GRID: [f64; 20] = [
    0.001, 0.01, 0.05, 0.1, 0.2, 0.3, 0.4, 0.49, 0.5, 0.51, 0.6, 0.7, 0.8, 0.9, 0.95, 0.975, 0.99, 0.995, 0.999, 0.9999,
];

/// level in [0.001, 0.9999]: grid, uniform, log-uniform near both ends
pub fn level() -> impl Strategy<Value = f64> {
    prop_oneof![
        4 => (0usize..LEVEL_GRID.len()).prop_map(|i| LEVEL_GRID[i]),
        3 => (0u32..=1_000_000).prop_map(|i| 0.001 + (0.9999 - 0.001) * (i as f64 / 1e6)),
        1 => (0u32..=1000).prop_map(|i| 0.001 * (10f64).powf(2.0 * i as f64 / 1000.0)),          // 0.001 .. 0.1
        1 => (0u32..=1000).prop_map(|i| 1.0 - 0.0001 * (10f64).powf(3.0 * i as f64 / 1000.0)),   // 0.9 .. 0.9999
    ]
    .prop_map(|l: f64| l.clamp(0.001, 0.9999))
}
pub fn conf() -> impl Strategy<Value = Conf> {
    (0u8..3, level()).prop_map(|(k, l)| Conf::new(k, l))
}
/// levels above 1/2 only (relations that need a non-negative critical value)
pub fn level_hi() -> impl Strategy<Value = f64> {
    level().prop_map(|l| if l <= 0.5 { 1.0 - l * 0.98 } else { l }).prop_map(|l: f64| l.clamp(0.5001, 0.9999))
}

/// A generated sample. `data` holds values exactly representable in the sample type.
#[derive(Clone, Debug, Serialize, Deserialize)]
pub struct Sample {
    pub f32: bool,
    pub shape: String,
    pub data: Vec<X>,
}
impl Sample {
    pub fn v64(&self) -> Vec<f64> {
        self.data.iter().map(|x| x.0).collect()
    }
    pub fn v32(&self) -> Vec<f32> {
        self.data.iter().map(|x| x.0 as f32).collect()
    }
    pub fn len(&self) -> usize {
        self.data.len()
    }
    pub fn n_bucket(&self) -> &'static str {
        n_bucket(self.data.len())
    }
}
pub fn n_bucket(n: usize) -> &'static str {
    match n {
        0..=1 => "n<2",
        2..=9 => "n2-9",
        10..=100 => "n10-100",
        101..=5000 => "n101-5000",
        5001..=99_999 => "n5001-99999",
        _ => "n>=100000",
    }
}

pub const SHAPES: [&str; 6] = ["uniform", "bell", "twopoint", "smallint", "outlier", "ramp"];

/// Build the values of a sample from raw integers (pure function, so shrinking the integers
/// shrinks the sample toward short, small, power-of-two data).
pub fn build_values(f32_: bool, shape: usize, kappa_code: u32, neg: bool, e: i32, raw: &[(i32, i32)]) -> Vec<f64> {
    let n = raw.len();
    // kappa = 0 or 2^(code/4 - 1)
    let kappa = if kappa_code == 0 { 0.0 } else { (2f64).powf(kappa_code as f64 / 4.0 - 1.0) };
    let kappa = if neg { -kappa } else { kappa };
    let scale = crate::fl::pow2(e);
    raw.iter()
        .enumerate()
        .map(|(i, &(a, b))| {
            let ua = a as f64 / (1 << 20) as f64;
            let ub = b as f64 / (1 << 20) as f64;
            let g = match shape {
                0 => ua,
                1 => 0.5 * (ua + ub),
                2 => {
                    if a >= 0 {
                        1.0
                    } else {
                        -1.0
                    }
                }
                3 => (ua * 5.0).round(),
                4 => {
                    if i == 0 {
                        1.0
                    } else {
                        ua / 1024.0
                    }
                }
                _ => i as f64 / n as f64 + ub / 4096.0,
            };
            let v = (kappa + g) * scale;
            if f32_ {
                (v as f32) as f64
            } else {
                v
            }
        })
        .collect()
}

fn raw_vec(lo: usize, hi: usize) -> impl Strategy<Value = Vec<(i32, i32)>> {
    let r = -(1i32 << 20)..=(1i32 << 20);
    prop::collection::vec((r.clone(), r), lo..=hi)
}

/// sizes: 2..9 (35 %), 10..100 (30 %), 100..max_n (35 %)
pub fn raw_sized(max_n: usize) -> impl Strategy<Value = Vec<(i32, i32)>> {
    prop_oneof![
        35 => raw_vec(2, 9),
        30 => raw_vec(10, 100),
        35 => raw_vec(100, max_n.max(101)),
    ]
}

/// `ill`: allow ill-conditioned kappa (counted separately by the checks)
pub fn sample_of(f32_: bool, max_n: usize, ill: bool) -> impl Strategy<Value = Sample> {
    // kappa code: 0 => 0 (20 %), else 1..=kmax; well-conditioned limits: f64 2^20, f32 2^5.9
    let kmax_ok: u32 = if f32_ { 27 } else { 84 };
    let kmax_ill: u32 = if f32_ { 64 } else { 170 };
    let kappa = if ill {
        prop_oneof![2 => Just(0u32), 7 => 1u32..=kmax_ok, 1 => kmax_ok..=kmax_ill].boxed()
    } else {
        prop_oneof![2 => Just(0u32), 8 => 1u32..=kmax_ok].boxed()
    };
    let erange = if f32_ { -15i32..=15 } else { -60i32..=60 };
    // 8 %: the same data scaled (exactly, by a power of two) to within 12 binades of the largest magnitude
    // at which n * x^2 still fits the float type — legitimate data near the top of the range
    // 4 %: scaled down instead, so that the squares of the observations are at or below the bottom of the normal range
    // (variance-level quantities lose precision to underflow; the tolerance model has an absolute term for it)
    let edge = prop_oneof![22 => Just(None), 2 => (0u8..12).prop_map(Some), 1 => (100u8..112).prop_map(Some)];
    (0usize..6, kappa, any::<bool>(), erange, raw_sized(max_n), edge).prop_map(move |(shape, kc, neg, e, raw, edge)| {
        let mut data = build_values(f32_, shape, kc, neg, e, &raw);
        let mut shape_name = SHAPES[shape].to_string();
        if let Some(back) = edge {
            if back >= 100 {
                if scale_to_lower_edge(f32_, &mut data, back - 100) {
                    shape_name.push_str("@lower-edge");
                }
            } else if scale_to_upper_edge(f32_, &mut data, back) {
                shape_name.push_str("@upper-edge");
            }
        }
        Sample { f32: f32_, shape: shape_name, data: xs(&data) }
    })
}

/// scale `data` by a power of two so that n * max|x|^2 is `back` + 4 binades below the overflow threshold of the
/// float type; returns false (data untouched) if the data are all zero or already there
pub fn scale_to_upper_edge(f32_: bool, data: &mut [f64], back: u8) -> bool {
    let maxabs = data.iter().fold(0.0f64, |m, x| m.max(x.abs()));
    if !(maxabs > 0.0) || !maxabs.is_finite() {
        return false;
    }
    let max_exp = if f32_ { 127.0 } else { 1023.0 };
    let n = data.len().max(1) as f64;
    let e_max = ((max_exp - 4.0 - back as f64 - n.log2() - 2.0 * maxabs.log2()) / 2.0).floor() as i32;
    if e_max <= 0 {
        return false;
    }
    let s = crate::fl::pow2(e_max);
    for x in data.iter_mut() {
        *x *= s;
        if f32_ {
            *x = (*x as f32) as f64;
        }
    }
    data.iter().all(|x| x.is_finite())
}
/// scale `data` by a power of two so that max|x|^2 is 2^-(1000 + 5 back) (f32: 2^-(110 + 3 back)): squares and the
/// variance are at the bottom of the normal range or subnormal; returns false (data untouched) for all-zero data
pub fn scale_to_lower_edge(f32_: bool, data: &mut [f64], back: u8) -> bool {
    let maxabs = data.iter().fold(0.0f64, |m, x| m.max(x.abs()));
    if !(maxabs > 0.0) || !maxabs.is_finite() {
        return false;
    }
    let target = if f32_ { -110.0 - 3.0 * back as f64 } else { -1000.0 - 5.0 * back as f64 };
    let e = ((target - 2.0 * maxabs.log2()) / 2.0).floor() as i32;
    if e >= 0 {
        return false;
    }
    let s = crate::fl::pow2(e);
    for x in data.iter_mut() {
        *x *= s;
        if f32_ {
            *x = (*x as f32) as f64;
        }
    }
    true
}
pub fn sample(max_n: usize, ill: bool) -> impl Strategy<Value = Sample> {
    prop_oneof![sample_of(false, max_n, ill), sample_of(true, max_n, ill)]
}

/// strictly positive sample for geometric / harmonic means: x = 2^(e + range*u) style values
pub fn positive_sample_of(f32_: bool, max_n: usize) -> impl Strategy<Value = Sample> {
    // magnitudes: mostly within 2^±12 (f32) / 2^±40 (f64), one in five out to 2^±30 / 2^±120 (for the harmonic mean
    // the reciprocals are then far below every absolute threshold a computation might use)
    let erange = if f32_ { prop_oneof![4 => -12i32..=12, 1 => -30i32..=30].boxed() } else { prop_oneof![4 => -40i32..=40, 1 => -120i32..=120].boxed() };
    // spread code: dynamic range of the data in binary orders of magnitude (0 => near constant)
    (0u32..=4, erange, raw_sized(max_n)).prop_map(move |(spread, e, raw)| {
        let range = [0.001, 0.1, 1.0, 8.0, if f32_ { 12.0 } else { 40.0 }][spread as usize];
        let data: Vec<f64> = raw
            .iter()
            .map(|&(a, _)| {
                let ua = a as f64 / (1 << 20) as f64;
                let v = (2f64).powf(e as f64 + range * ua);
                let v = if f32_ { (v as f32) as f64 } else { v };
                v
            })
            .collect();
        Sample { f32: f32_, shape: format!("positive/spread{spread}"), data: xs(&data) }
    })
}
pub fn positive_sample(max_n: usize) -> impl Strategy<Value = Sample> {
    prop_oneof![positive_sample_of(false, max_n), positive_sample_of(true, max_n)]
}

/// chunk boundaries for splitting a sequence of length n: sorted cut points
pub fn cuts(max_cuts: usize) -> impl Strategy<Value = Vec<u16>> {
    prop::collection::vec(any::<u16>(), 0..=max_cuts)
}
/// map u16 codes to cut indices in 0..=n (monotone map so that shrinking is monotone)
pub fn cut_points(codes: &[u16], n: usize) -> Vec<usize> {
    let mut v: Vec<usize> = codes.iter().map(|&c| (c as usize * (n + 1)) >> 16).collect();
    v.sort();
    v
}
/// split `data` at the cut points into chunks (possibly empty ones)
pub fn split_at<'a, T>(data: &'a [T], cuts: &[usize]) -> Vec<&'a [T]> {
    let mut out = vec![];
    let mut prev = 0;
    for &c in cuts {
        let c = c.min(data.len()).max(prev);
        out.push(&data[prev..c]);
        prev = c;
    }
    out.push(&data[prev..]);
    out
}

/// permutation from codes: Fisher–Yates driven by u16 codes (monotone index map)
pub fn permute<T: Clone>(data: &[T], codes: &[u16]) -> Vec<T> {
    let mut v: Vec<T> = data.to_vec();
    let n = v.len();
    for i in (1..n).rev() {
        let c = codes.get(n - 1 - i).copied().unwrap_or(0) as usize;
        let j = (c * (i + 1)) >> 16;
        v.swap(i, j);
    }
    v
}

/// all permutations of 0..n (Heap's algorithm)
pub fn permutations(n: usize) -> Vec<Vec<usize>> {
    let mut out = vec![];
    let mut a: Vec<usize> = (0..n).collect();
    let mut c = vec![0usize; n];
    out.push(a.clone());
    let mut i = 0;
    while i < n {
        if c[i] < i {
            if i % 2 == 0 {
                a.swap(0, i);
            } else {
                a.swap(c[i], i);
            }
            out.push(a.clone());
            c[i] += 1;
            i = 0;
        } else {
            c[i] = 0;
            i += 1;
        }
    }
    out
}

/// A container whose by-reference iterator skips holes: its `size_hint` upper bound is loose (the slice length),
/// like a collection that filters invalid readings. Every generic front-end (`&I: IntoIterator<Item = &T>`) must
/// treat it exactly like the dense data.
#[derive(Clone, Debug)]
pub struct Sparse<T>(pub Vec<Option<T>>);
impl<'a, T> IntoIterator for &'a Sparse<T> {
    type Item = &'a T;
    type IntoIter = std::iter::FilterMap<std::slice::Iter<'a, Option<T>>, fn(&'a Option<T>) -> Option<&'a T>>;
    fn into_iter(self) -> Self::IntoIter {
        fn pick<T>(o: &Option<T>) -> Option<&T> {
            o.as_ref()
        }
        self.0.iter().filter_map(pick::<T> as fn(&'a Option<T>) -> Option<&'a T>)
    }
}
/// dense data with `holes` (>= 1) holes inserted at positions derived from `code`
pub fn sparse<T: Clone>(data: &[T], code: u64, holes: usize) -> Sparse<T> {
    let mut v: Vec<Option<T>> = data.iter().cloned().map(Some).collect();
    let mut g = crate::engine::SplitMix(code ^ 0x5eed);
    for _ in 0..holes.max(1) {
        let pos = g.below(v.len() as u64 + 1) as usize;
        v.insert(pos, None);
    }
    Sparse(v)
}
