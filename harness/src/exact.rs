//! Exact arithmetic reference: sums of binary floats as big integers.

use num_bigint::{BigInt, Sign};
use num_traits::{One, Signed, ToPrimitive, Zero};

/// (mantissa, exponent) with x = m * 2^e exactly; x must be finite.
pub fn decode(x: f64) -> (i64, i32) {
    debug_assert!(x.is_finite());
    let bits = x.to_bits();
    let sign = if bits >> 63 == 0 { 1i64 } else { -1 };
    let exp = ((bits >> 52) & 0x7ff) as i32;
    let frac = (bits & 0xf_ffff_ffff_ffff) as i64;
    if exp == 0 {
        (sign * frac, -1074)
    } else {
        (sign * (frac | (1 << 52)), exp - 1075)
    }
}

/// value = num * 2^exp
#[derive(Clone, Debug)]
pub struct Dy {
    pub num: BigInt,
    pub exp: i64,
}
impl Dy {
    pub fn zero() -> Dy {
        Dy { num: BigInt::zero(), exp: 0 }
    }
    pub fn from_f64(x: f64) -> Dy {
        let (m, e) = decode(x);
        Dy { num: BigInt::from(m), exp: e as i64 }
    }
    pub fn to_f64(&self) -> f64 {
        ratio_to_f64(&self.num, &BigInt::one(), self.exp)
    }
    pub fn add(&self, o: &Dy) -> Dy {
        if self.num.is_zero() {
            return o.clone();
        }
        if o.num.is_zero() {
            return self.clone();
        }
        let e = self.exp.min(o.exp);
        Dy { num: (&self.num << ((self.exp - e) as u64)) + (&o.num << ((o.exp - e) as u64)), exp: e }
    }
    pub fn sub(&self, o: &Dy) -> Dy {
        self.add(&Dy { num: -&o.num, exp: o.exp })
    }
    pub fn mul(&self, o: &Dy) -> Dy {
        Dy { num: &self.num * &o.num, exp: self.exp + o.exp }
    }
    pub fn abs(&self) -> Dy {
        Dy { num: self.num.abs(), exp: self.exp }
    }
    pub fn is_zero(&self) -> bool {
        self.num.is_zero()
    }
    pub fn signum(&self) -> i32 {
        match self.num.sign() {
            Sign::Minus => -1,
            Sign::NoSign => 0,
            Sign::Plus => 1,
        }
    }
    /// self / (d as integer) as f64
    pub fn div_int_f64(&self, d: &BigInt) -> f64 {
        ratio_to_f64(&self.num, d, self.exp)
    }
}

/// (num / den) * 2^exp2 rounded to f64 (error <= 1 ulp; result may overflow to inf / underflow)
pub fn ratio_to_f64(num: &BigInt, den: &BigInt, exp2: i64) -> f64 {
    assert!(!den.is_zero());
    if num.is_zero() {
        return 0.0;
    }
    let neg = (num.sign() == Sign::Minus) != (den.sign() == Sign::Minus);
    let n = num.abs();
    let d = den.abs();
    // scale so that the quotient has between 64 and 66 significant bits
    let nb = n.bits() as i64;
    let db = d.bits() as i64;
    let shift = 66 - (nb - db); // want n<<shift / d ~ 2^66
    let (q, r) = if shift >= 0 {
        let nn = &n << (shift as u64);
        let q = &nn / &d;
        let r = &nn % &d;
        (q, r)
    } else {
        let dd = &d << ((-shift) as u64);
        let q = &n / &dd;
        let r = &n % &dd;
        (q, r)
    };
    // q has 65..67 bits; fold the sticky bit
    let mut q = q;
    if !r.is_zero() {
        q = (q << 1u32) | BigInt::one();
    } else {
        q = q << 1u32;
    }
    let e = exp2 - shift - 1;
    // q (68 bits or so, with sticky) -> f64 correctly rounded by to_f64 of BigInt (round to nearest even
    // with sticky handled by num-bigint), then scale by 2^e in two steps to avoid spurious overflow
    let m = q.to_f64().unwrap();
    let v = scale2(m, e);
    if neg {
        -v
    } else {
        v
    }
}

/// x * 2^e without intermediate overflow
pub fn scale2(mut x: f64, mut e: i64) -> f64 {
    while e > 1000 {
        x *= crate::fl::pow2(1000);
        e -= 1000;
        if !x.is_finite() {
            return x;
        }
    }
    while e < -1000 {
        x *= crate::fl::pow2(-1000);
        e += 1000;
        if x == 0.0 {
            return x;
        }
    }
    x * crate::fl::pow2(e as i32)
}

/// Exact first and second moments of a finite sample.
#[derive(Clone, Debug)]
pub struct Moments {
    pub n: usize,
    /// sum x
    pub s1: Dy,
    /// sum x^2
    pub s2: Dy,
    /// sum |x|
    pub sa: Dy,
}

pub fn moments(data: &[f64]) -> Moments {
    // accumulate at a common exponent chosen as the minimum
    let mut emin = i32::MAX;
    for &x in data {
        if x != 0.0 {
            emin = emin.min(decode(x).1);
        }
    }
    if emin == i32::MAX {
        return Moments { n: data.len(), s1: Dy::zero(), s2: Dy::zero(), sa: Dy::zero() };
    }
    let mut s1 = BigInt::zero();
    let mut s2 = BigInt::zero();
    let mut sa = BigInt::zero();
    // fast path with i128 partial sums when the exponent spread is small
    let mut emax = i32::MIN;
    for &x in data {
        if x != 0.0 {
            emax = emax.max(decode(x).1);
        }
    }
    let spread = (emax - emin) as u32;
    if spread <= 8 {
        // m << spread fits in 62 bits; sum of up to 2^60 such fits i128. squares need 124 bits: use BigInt chunks
        let mut a1: i128 = 0;
        let mut aa: i128 = 0;
        let mut a2: u128 = 0;
        let mut hi2 = BigInt::zero();
        for &x in data {
            if x == 0.0 {
                continue;
            }
            let (m, e) = decode(x);
            let v = (m as i128) << ((e - emin) as u32);
            a1 += v;
            aa += v.abs();
            let sq = (v.unsigned_abs()) * (v.unsigned_abs()); // < 2^124
            let (r, o) = a2.overflowing_add(sq);
            if o {
                hi2 += BigInt::one() << 128u32;
            }
            a2 = r;
        }
        s1 = BigInt::from(a1);
        sa = BigInt::from(aa);
        s2 = hi2 + BigInt::from(a2);
    } else {
        for &x in data {
            if x == 0.0 {
                continue;
            }
            let (m, e) = decode(x);
            let v = BigInt::from(m) << ((e - emin) as u64);
            s2 += &v * &v;
            if m < 0 {
                sa -= &v;
            } else {
                sa += &v;
            }
            s1 += v;
        }
    }
    Moments {
        n: data.len(),
        s1: Dy { num: s1, exp: emin as i64 },
        s2: Dy { num: s2, exp: 2 * emin as i64 },
        sa: Dy { num: sa, exp: emin as i64 },
    }
}

impl Moments {
    pub fn sum(&self) -> f64 {
        self.s1.to_f64()
    }
    pub fn sum_abs(&self) -> f64 {
        self.sa.to_f64()
    }
    pub fn sum_sq(&self) -> f64 {
        self.s2.to_f64()
    }
    pub fn mean(&self) -> f64 {
        self.s1.div_int_f64(&BigInt::from(self.n))
    }
    pub fn mean_abs(&self) -> f64 {
        self.sa.div_int_f64(&BigInt::from(self.n))
    }
    pub fn mean_sq(&self) -> f64 {
        self.s2.div_int_f64(&BigInt::from(self.n))
    }
    /// (n*S2 - S1^2) as exact dyadic (>= 0)
    pub fn nvar_num(&self) -> Dy {
        let n = Dy { num: BigInt::from(self.n), exp: 0 };
        n.mul(&self.s2).sub(&self.s1.mul(&self.s1))
    }
    /// sample variance with denominator n-1 (n >= 2)
    pub fn variance(&self) -> f64 {
        let d = BigInt::from(self.n) * BigInt::from(self.n - 1);
        self.nvar_num().div_int_f64(&d)
    }
    pub fn is_constant(&self) -> bool {
        self.nvar_num().is_zero()
    }
    pub fn merge(&self, o: &Moments) -> Moments {
        Moments { n: self.n + o.n, s1: self.s1.add(&o.s1), s2: self.s2.add(&o.s2), sa: self.sa.add(&o.sa) }
    }
}

/// exact sum and sum of absolute values of a sequence given as f64 (f32 inputs are widened exactly)
pub fn exact_sum(data: &[f64]) -> (Dy, Dy) {
    let m = moments_light(data);
    (m.0, m.1)
}
fn moments_light(data: &[f64]) -> (Dy, Dy) {
    let mut emin = i32::MAX;
    let mut emax = i32::MIN;
    for &x in data {
        if x != 0.0 {
            let e = decode(x).1;
            emin = emin.min(e);
            emax = emax.max(e);
        }
    }
    if emin == i32::MAX {
        return (Dy::zero(), Dy::zero());
    }
    let spread = (emax - emin) as u32;
    if spread <= 60 {
        let mut a1: i128 = 0;
        let mut aa: i128 = 0;
        let mut hi1 = BigInt::zero();
        let mut hia = BigInt::zero();
        let lim: i128 = 1i128 << 125;
        for &x in data {
            if x == 0.0 {
                continue;
            }
            let (m, e) = decode(x);
            let v = (m as i128) << ((e - emin) as u32);
            a1 += v;
            aa += v.abs();
            if aa > lim {
                hi1 += BigInt::from(a1);
                hia += BigInt::from(aa);
                a1 = 0;
                aa = 0;
            }
        }
        hi1 += BigInt::from(a1);
        hia += BigInt::from(aa);
        (Dy { num: hi1, exp: emin as i64 }, Dy { num: hia, exp: emin as i64 })
    } else {
        let mut s1 = BigInt::zero();
        let mut sa = BigInt::zero();
        for &x in data {
            if x == 0.0 {
                continue;
            }
            let (m, e) = decode(x);
            let v = BigInt::from(m) << ((e - emin) as u64);
            if m < 0 {
                sa -= &v;
            } else {
                sa += &v;
            }
            s1 += v;
        }
        (Dy { num: s1, exp: emin as i64 }, Dy { num: sa, exp: emin as i64 })
    }
}

#[cfg(test)]
mod tests {
    use super::*;
    #[test]
    fn basic() {
        let m = moments(&[1.0, 2.0, 3.0, 4.0]);
        assert_eq!(m.mean(), 2.5);
        assert_eq!(m.variance(), 5.0 / 3.0);
        let m = moments(&[0.1, 0.1, 0.1]);
        assert!(m.is_constant());
        assert_eq!(m.mean(), 0.1);
        assert_eq!(ratio_to_f64(&BigInt::from(1), &BigInt::from(3), 0), 1.0 / 3.0);
        assert_eq!(ratio_to_f64(&BigInt::from(-7), &BigInt::from(2), 10), -3584.0);
        let (s, a) = exact_sum(&[1e300, -1e300, 1e-300]);
        assert_eq!(s.to_f64(), 1e-300);
        assert_eq!(a.to_f64(), 2e300);
    }
}
