//! Set-semantics model of `Interval` over a finite chain extended by −∞ / +∞, and helpers to
//! describe call outcomes.

use serde::{Deserialize, Serialize};
use stats_ci::error::CIError;
use stats_ci::{Confidence, Interval};

/// Interval over chain indices. Kind 0 = two-sided [a,b], 1 = upper one-sided [a,+inf), 2 = lower
/// one-sided (-inf,b].
#[derive(Clone, Copy, Debug, PartialEq, Eq, Hash, Serialize, Deserialize, PartialOrd, Ord)]
pub struct MI {
    pub kind: u8,
    pub a: i32,
    pub b: i32,
}
pub const NEG_INF: i32 = i32::MIN / 2;
pub const POS_INF: i32 = i32::MAX / 2;

impl MI {
    pub fn two(a: i32, b: i32) -> MI {
        MI { kind: 0, a, b }
    }
    pub fn upper(a: i32) -> MI {
        MI { kind: 1, a, b: 0 }
    }
    pub fn lower(b: i32) -> MI {
        MI { kind: 2, a: 0, b }
    }
    /// denotation as an inclusive range over the extended index line
    pub fn lo(&self) -> i32 {
        match self.kind {
            0 | 1 => self.a,
            _ => NEG_INF,
        }
    }
    pub fn hi(&self) -> i32 {
        match self.kind {
            0 | 2 => self.b,
            _ => POS_INF,
        }
    }
    pub fn contains(&self, x: i32) -> bool {
        self.lo() <= x && x <= self.hi()
    }
    pub fn intersects(&self, o: &MI) -> bool {
        self.lo().max(o.lo()) <= self.hi().min(o.hi())
    }
    pub fn includes(&self, o: &MI) -> bool {
        self.lo() <= o.lo() && o.hi() <= self.hi()
    }
    /// every member of self <= every member of o
    pub fn all_le(&self, o: &MI) -> bool {
        self.hi() <= o.lo()
    }
    pub fn kind_name(&self) -> &'static str {
        ["two", "upper", "lower"][self.kind as usize]
    }
    pub fn build<T: PartialOrd + Clone>(&self, chain: &[T]) -> Interval<T> {
        match self.kind {
            0 => Interval::TwoSided(chain[self.a as usize].clone(), chain[self.b as usize].clone()),
            1 => Interval::UpperOneSided(chain[self.a as usize].clone()),
            _ => Interval::LowerOneSided(chain[self.b as usize].clone()),
        }
    }
}

/// all well-formed intervals over chain indices lo..=hi
pub fn all_intervals(lo: i32, hi: i32) -> Vec<MI> {
    let mut v = vec![];
    for a in lo..=hi {
        for b in a..=hi {
            v.push(MI::two(a, b));
        }
    }
    for a in lo..=hi {
        v.push(MI::upper(a));
    }
    for b in lo..=hi {
        v.push(MI::lower(b));
    }
    v
}

pub fn interval_kind<T: PartialOrd>(i: &Interval<T>) -> u8 {
    match i {
        Interval::TwoSided(_, _) => 0,
        Interval::UpperOneSided(_) => 1,
        Interval::LowerOneSided(_) => 2,
    }
}

// ------------------------------------------------------------------------------------------

/// Confidence as a plain, serialisable value.
#[derive(Clone, Copy, Debug, PartialEq, Serialize, Deserialize)]
pub struct Conf {
    /// 0 two-sided, 1 upper one-sided, 2 lower one-sided
    pub kind: u8,
    pub level: crate::fl::X,
}
impl Conf {
    pub fn new(kind: u8, level: f64) -> Conf {
        Conf { kind, level: crate::fl::X(level) }
    }
    pub fn l(&self) -> f64 {
        self.level.0
    }
    pub fn get(&self) -> Confidence {
        match self.kind {
            0 => Confidence::new_two_sided(self.level.0),
            1 => Confidence::new_upper(self.level.0),
            _ => Confidence::new_lower(self.level.0),
        }
    }
    pub fn flipped(&self) -> Conf {
        Conf { kind: [0, 2, 1][self.kind as usize], level: self.level }
    }
    /// probability at which the reference distribution is inverted
    pub fn target(&self) -> f64 {
        if self.kind == 0 {
            (1.0 + self.level.0) / 2.0
        } else {
            self.level.0
        }
    }
    pub fn kind_name(&self) -> &'static str {
        ["two", "upper", "lower"][self.kind as usize]
    }
    pub fn level_bucket(&self) -> &'static str {
        let l = self.level.0;
        if l < 0.5 {
            "L<.5"
        } else if l == 0.5 {
            "L=.5"
        } else if l < 0.9 {
            "L<.9"
        } else if l < 0.99 {
            "L<.99"
        } else {
            "L>=.99"
        }
    }
}

/// Error variants, payload-free, comparable.
#[derive(Clone, Debug, PartialEq, Eq, Hash, Serialize, Deserialize, PartialOrd, Ord)]
pub enum EK {
    TooFewSamples,
    TooFewSuccesses,
    TooFewFailures,
    InvalidConfidenceLevel,
    InvalidQuantile,
    InvalidSuccesses,
    NonPositiveValue,
    InvalidInputData,
    FloatConversionError,
    IndexError,
    StringError,
    IntervalInvalidBounds,
    IntervalEmpty,
    DifferentSampleSizes,
}
pub fn ek(e: &CIError) -> EK {
    match e {
        CIError::TooFewSamples(_) => EK::TooFewSamples,
        CIError::TooFewSuccesses(..) => EK::TooFewSuccesses,
        CIError::TooFewFailures(..) => EK::TooFewFailures,
        CIError::InvalidConfidenceLevel(_) => EK::InvalidConfidenceLevel,
        CIError::InvalidQuantile(_) => EK::InvalidQuantile,
        CIError::InvalidSuccesses(..) => EK::InvalidSuccesses,
        CIError::NonPositiveValue(_) => EK::NonPositiveValue,
        CIError::InvalidInputData => EK::InvalidInputData,
        CIError::FloatConversionError(_) => EK::FloatConversionError,
        CIError::IndexError(..) => EK::IndexError,
        CIError::Error(_) => EK::StringError,
        CIError::IntervalError(stats_ci::error::IntervalError::InvalidBounds) => EK::IntervalInvalidBounds,
        CIError::IntervalError(stats_ci::error::IntervalError::EmptyInterval) => EK::IntervalEmpty,
        CIError::DifferentSampleSizes(..) => EK::DifferentSampleSizes,
    }
}

/// Outcome of a call into the crate.
#[derive(Debug)]
pub enum Out<T> {
    Ok(T),
    Err(CIError),
    Panic(String),
}
impl<T: std::fmt::Debug> Out<T> {
    pub fn describe(&self) -> String {
        match self {
            Out::Ok(v) => format!("Ok({v:?})"),
            Out::Err(e) => format!("Err({e:?})"),
            Out::Panic(p) => format!("panic({p})"),
        }
    }
}
pub fn call<T>(f: impl FnOnce() -> Result<T, CIError>) -> Out<T> {
    match crate::engine::guard(f) {
        Ok(Ok(v)) => Out::Ok(v),
        Ok(Err(e)) => Out::Err(e),
        Err(p) => Out::Panic(p),
    }
}

/// (low, high) of a float interval with infinities for the missing side, plus the kind
pub fn bounds<F: crate::fl::Fl>(i: &Interval<F>) -> (u8, f64, f64) {
    match i {
        Interval::TwoSided(a, b) => (0, a.to64(), b.to64()),
        Interval::UpperOneSided(a) => (1, a.to64(), f64::INFINITY),
        Interval::LowerOneSided(b) => (2, f64::NEG_INFINITY, b.to64()),
    }
}
pub fn bits_eq<F: crate::fl::Fl>(a: &Interval<F>, b: &Interval<F>) -> bool {
    let (ka, la, ha) = bounds(a);
    let (kb, lb, hb) = bounds(b);
    ka == kb && la.to_bits() == lb.to_bits() && ha.to_bits() == hb.to_bits()
}
