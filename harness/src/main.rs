//! svcheck — property-based checks of xdefago/stats-ci (see /verif/DESIGN.md).
//!
//! usage: svcheck <ID> [--tier quick|thorough] [--replay FILE]
//! exit 0: held on everything explored; 1: VIOLATION line(s) printed; 2: inconclusive / infrastructure.

#[macro_use]
mod engine;
mod exact;
mod fl;
mod gen;
mod meanref;
mod model;
mod props;
mod refmath;

use engine::{Run, Tier};

fn main() {
    let args: Vec<String> = std::env::args().skip(1).collect();
    if args.is_empty() {
        eprintln!("usage: svcheck <ID> [--tier quick|thorough] [--replay FILE]");
        std::process::exit(2);
    }
    let id = args[0].to_uppercase();
    let mut tier = match std::env::var("VERIF_TIER").ok().as_deref() {
        Some("thorough") => Tier::Thorough,
        _ => Tier::Quick,
    };
    let mut replay: Option<String> = None;
    let mut i = 1;
    while i < args.len() {
        match args[i].as_str() {
            "--tier" => {
                i += 1;
                tier = match args.get(i).map(|s| s.as_str()) {
                    Some("thorough") => Tier::Thorough,
                    Some("quick") => Tier::Quick,
                    other => {
                        eprintln!("bad tier {other:?}");
                        std::process::exit(2);
                    }
                };
            }
            "--replay" => {
                i += 1;
                replay = args.get(i).cloned();
            }
            other => {
                eprintln!("unknown argument {other}");
                std::process::exit(2);
            }
        }
        i += 1;
    }
    let seed = std::env::var("VERIF_SEED").ok().and_then(|s| s.trim().parse::<i128>().ok()).map(|v| v as u64).unwrap_or(engine::DEFAULT_SEED);
    engine::install_panic_hook();

    if id == "SELFTEST" {
        std::process::exit(refmath_selftest_cli());
    }
    let Some(entry) = props::lookup(&id) else {
        eprintln!("unknown property {id}");
        std::process::exit(2);
    };
    if let Some(path) = replay {
        std::process::exit(props::replay(&entry, &path));
    }
    let mut run = Run::new(entry.id, tier, seed);
    (entry.run)(&mut run);
    std::process::exit(run.finish());
}

fn refmath_selftest_cli() -> i32 {
    match meanref::selftest() {
        Ok(report) => {
            println!("{}", serde_json::to_string_pretty(&report).unwrap());
            0
        }
        Err(e) => {
            println!("INCONCLUSIVE: oracle self-test failed: {e}");
            2
        }
    }
}
