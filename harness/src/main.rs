//! svcheck — property-based checks of xdefago/stats-ci (see /verif/DESIGN.md).
//!
//! usage: svcheck <ID> [--tier quick|thorough] [--replay FILE]
//! exit 0: held on everything explored; 1: VIOLATION line(s) printed; 2: inconclusive / infrastructure.

use svcheck::{engine, meanref, props};
use engine::{Run, Tier};

fn main() {
    let args: Vec<String> = std::env::args().skip(1).collect();
    if args.is_empty() {
        eprintln!("usage: svcheck <ID> [--tier quick|thorough] [--replay FILE]");
        std::process::exit(2);
    }
    let id = args[0].to_uppercase();
    if id == "C11FUZZ" || id == "C09FUZZ" {
        // merge the statistics of a finished libFuzzer campaign into evidence/<ID>.json (written just before by the check)
        std::process::exit(merge_fuzz(&id[..3], &args[1..]));
    }
    let mut tier = match std::env::var("VERIF_TIER").ok().as_deref() {
        Some("thorough") => Tier::Thorough,
        _ => Tier::Quick,
    };
    let mut replay: Option<String> = None;
    let mut i = 1;
    while i < args.len() {
        match args[i].as_str() {
            "--tier" => {
                i += 1;
                tier = match args.get(i).map(|s| s.as_str()) {
                    Some("thorough") => Tier::Thorough,
                    Some("quick") => Tier::Quick,
                    other => {
                        eprintln!("bad tier {other:?}");
                        std::process::exit(2);
                    }
                };
            }
            "--replay" => {
                i += 1;
                replay = args.get(i).cloned();
            }
            other => {
                eprintln!("unknown argument {other}");
                std::process::exit(2);
            }
        }
        i += 1;
    }
    let seed = std::env::var("VERIF_SEED").ok().and_then(|s| s.trim().parse::<i128>().ok()).map(|v| v as u64).unwrap_or(engine::DEFAULT_SEED);
    engine::install_panic_hook();

    if id == "SELFTEST" {
        std::process::exit(refmath_selftest_cli());
    }
    let Some(entry) = props::lookup(&id) else {
        eprintln!("unknown property {id}");
        std::process::exit(2);
    };
    if let Some(path) = replay {
        std::process::exit(props::replay(&entry, &path));
    }
    let mut run = Run::new(entry.id, tier, seed);
    (entry.run)(&mut run);
    std::process::exit(run.finish());
}

fn refmath_selftest_cli() -> i32 {
    match meanref::selftest() {
        Ok(report) => {
            println!("{}", serde_json::to_string_pretty(&report).unwrap());
            0
        }
        Err(e) => {
            println!("INCONCLUSIVE: oracle self-test failed: {e}");
            2
        }
    }
}

fn merge_fuzz(prop: &str, a: &[String]) -> i32 {
    let get = |i: usize| a.get(i).and_then(|s| s.parse::<f64>().ok()).unwrap_or(0.0);
    let path = engine::verif_dir().join("evidence").join(format!("{prop}.json"));
    let Ok(text) = std::fs::read_to_string(&path) else {
        println!("INCONCLUSIVE: no evidence/{prop}.json to merge fuzz statistics into");
        return 2;
    };
    let (target, seeds) = if prop == "C09" {
        ("harness/fuzz/fuzz_targets/c09_program.rs, programs of up to 400 operations through the same interpreter and multiset model as the proptest driver", "harness/fuzz/seeds-c09 (one short program per state type + the empty input)")
    } else {
        ("harness/fuzz/fuzz_targets/c11_total.rs, same classifier as the other drivers", "harness/fuzz/seeds (one input per entry point x 3 flag patterns + the empty input)")
    };
    let Ok(mut v) = serde_json::from_str::<serde_json::Value>(&text) else { return 2 };
    let runs = get(0) as u64;
    v["coverage"]["fuzz"] = serde_json::json!({
        "engine": format!("libFuzzer via cargo-fuzz 0.13 (target {target}; overflow checks on, debug assertions off)"),
        "runs": runs, "coverage_edges": get(1) as u64, "features": get(2) as u64, "corpus_inputs": get(3) as u64, "seconds": get(4), "crashed": get(5) != 0.0,
        "seed_corpus": seeds,
        "note": "a libFuzzer campaign is pinned by -seed/-runs only approximately; the saved input is the reproducible unit"
    });
    if let Some(e) = v["coverage"]["evaluations"].as_u64() {
        v["coverage"]["evaluations"] = serde_json::json!(e + runs);
    }
    if let Some(w) = v["wall_s"].as_f64() {
        v["wall_s"] = serde_json::json!(w + get(4));
    }
    match std::fs::write(&path, serde_json::to_string_pretty(&v).unwrap()) {
        Ok(()) => 0,
        Err(_) => 2,
    }
}
