#![no_main]
//! libFuzzer target for C11: bytes -> (entry point, kind, level, data, counts) -> the same outcome
//! classifier as the enumerated and proptest drivers. A classifier failure is written as a JSON replay
//! (SVFUZZ_OUT) and turned into a crash so that libFuzzer keeps the input.

use arbitrary::Unstructured;
use libfuzzer_sys::fuzz_target;
use svcheck::fl::X;
use svcheck::model::Conf;
use svcheck::props::c11::{classify_case, special_values, Case, EPS};

const LEVELS: [f64; 12] = [0.001, 0.01, 0.1, 0.3, 0.49, 0.5, 0.51, 0.8, 0.9, 0.95, 0.99, 0.9999];
const VALID: [f64; 8] = [3.5, 0.1, 12.25, 7.0, 1.1, 5.75, 2.0, 0.5];

fn value(u: &mut Unstructured, f32_: bool) -> arbitrary::Result<f64> {
    let sel: u8 = u.arbitrary()?;
    let v = match sel % 8 {
        0..=3 => VALID[(sel as usize / 8) % VALID.len()],
        4 => special_values(f32_)[(sel as usize / 8) % 12],
        5 => (u.arbitrary::<u16>()? as f64) / 64.0,
        6 => {
            if f32_ {
                f32::from_bits(u.arbitrary::<u32>()?) as f64
            } else {
                f64::from_bits(u.arbitrary::<u64>()?)
            }
        }
        _ => -(u.arbitrary::<u8>()? as f64) / 4.0,
    };
    Ok(if f32_ { (v as f32) as f64 } else { v })
}

pub fn decode(data: &[u8]) -> arbitrary::Result<Case> {
    let mut u = Unstructured::new(data);
    let ep = EPS[u.arbitrary::<u8>()? as usize % EPS.len()];
    let flags: u8 = u.arbitrary()?;
    let f32_ = flags & 1 == 1;
    let conf = Conf::new((flags >> 1) % 3, LEVELS[(flags as usize >> 3) % LEVELS.len()]);
    let na = (u.arbitrary::<u8>()? % 20) as usize;
    let nb = if flags & 0x80 != 0 { na } else { (u.arbitrary::<u8>()? % 20) as usize };
    let mut a = vec![];
    for _ in 0..na {
        a.push(X(value(&mut u, f32_)?));
    }
    let mut b = vec![];
    for _ in 0..nb {
        b.push(X(value(&mut u, f32_)?));
    }
    let nsel: u8 = u.arbitrary()?;
    let (n, k) = match nsel % 4 {
        0 => ((u.arbitrary::<u8>()? % 48) as u64, (u.arbitrary::<u8>()? % 52) as u64),
        1 => ((u.arbitrary::<u16>()? % 2500) as u64, (u.arbitrary::<u16>()? % 2600) as u64),
        2 => (u.arbitrary::<u64>()?, u.arbitrary::<u64>()?),
        _ => {
            let n = (u.arbitrary::<u8>()? % 64) as u64;
            (n, n.saturating_sub((u.arbitrary::<u8>()? % 12) as u64))
        }
    };
    let qsel: u8 = u.arbitrary()?;
    let q = match qsel % 4 {
        0 | 1 => (u.arbitrary::<u16>()? % 1001) as f64 / 1000.0,
        2 => [0.0, 1.0, -0.1, 1.5, f64::NAN, f64::INFINITY, f64::NEG_INFINITY, -0.0, 0.5, 1e-300, 0.29, 0.999999][(qsel as usize / 4) % 12],
        _ => f64::from_bits(u.arbitrary::<u64>()?),
    };
    let n = if ep == "proportion::ci_true" || ep == "proportion::ci_if" { n % 3000 } else { n };
    Ok(Case { ep: ep.to_string(), f32: f32_, a, b, n, k, q: X(q), conf })
}

fuzz_target!(|data: &[u8]| {
    static INIT: std::sync::Once = std::sync::Once::new();
    INIT.call_once(|| {
        // the classifier catches panics of the crate itself; keep their default messages quiet
        let default = std::panic::take_hook();
        std::panic::set_hook(Box::new(move |info| {
            let msg = info.payload().downcast_ref::<String>().cloned().unwrap_or_default();
            if msg.starts_with("C11 VIOLATION") {
                default(info);
            }
        }));
    });
    let Ok(case) = decode(data) else { return };
    if let Err(f) = classify_case(&case) {
        // listed known findings are tolerated so that the campaign continues behind them
        let allow = std::env::var("SVFUZZ_ALLOW").unwrap_or_default();
        if allow.split(',').any(|s| !s.is_empty() && s == f.sig) {
            return;
        }
        if let Ok(out) = std::env::var("SVFUZZ_OUT") {
            let body = serde_json::json!({"property": "C11", "sub": "fuzz", "sig": f.sig, "message": f.msg, "input": case});
            let name: String = f.sig.chars().map(|c| if c.is_ascii_alphanumeric() { c } else { '_' }).collect();
            let _ = std::fs::create_dir_all(&out);
            let _ = std::fs::write(format!("{out}/{name}.json"), serde_json::to_string_pretty(&body).unwrap());
        }
        panic!("C11 VIOLATION {}: {}", f.sig, f.msg);
    }
});
