#![no_main]
//! libFuzzer target for C09: bytes -> a program over the register file (up to 400 operations, i.e. far longer
//! histories than the proptest driver generates) -> the same interpreter and multiset model. A model disagreement is
//! written as a JSON replay (SVFUZZ_OUT, sub-check "program") and turned into a crash so that libFuzzer keeps the input.

use arbitrary::Unstructured;
use libfuzzer_sys::fuzz_target;
use svcheck::fl::X;
use svcheck::model::Conf;
use svcheck::props::c09::{program_case, Item, Op, Program, TYPES};

const LEVELS: [f64; 8] = [0.001, 0.1, 0.49, 0.5, 0.8, 0.95, 0.99, 0.9999];

fn item(u: &mut Unstructured, positive: bool, f32_: bool, scale: f64) -> arbitrary::Result<Item> {
    let one = |u: &mut Unstructured| -> arbitrary::Result<f64> {
        let sel: u8 = u.arbitrary()?;
        let r = u.arbitrary::<i16>()? as f64;
        let v = match sel % 6 {
            // small integers of either sign (exact ties between partial sums), powers of two for the positive types
            0 => {
                if positive {
                    (2f64).powi((sel as i32 / 6) % 5 - 2)
                } else {
                    ((sel as i32 / 6) % 7 - 3) as f64
                }
            }
            1 | 2 => {
                if positive {
                    (2f64).powf(r / 32768.0 * 3.0)
                } else {
                    r / 4096.0
                }
            }
            3 => {
                if positive {
                    (2f64).powf(r / 32768.0 * 3.0) * 9.0
                } else {
                    8.0 + r / 32768.0
                }
            }
            4 => {
                if positive {
                    1.0 + r.abs() / 1e6
                } else {
                    100.0 + r / 32768.0
                }
            }
            _ => {
                if positive {
                    0.1
                } else {
                    0.1 * (1 + sel / 6) as f64
                }
            }
        } * scale;
        Ok(if f32_ { (v as f32) as f64 } else { v })
    };
    let x = one(u)?;
    let y = one(u)? * 0.5;
    let y = if f32_ { (y as f32) as f64 } else { y };
    Ok(Item { x: X(x), y: X(y), flag: u.arbitrary()? })
}

pub fn decode(data: &[u8]) -> arbitrary::Result<Program> {
    let mut u = Unstructured::new(data);
    let t = u.arbitrary::<u8>()? as usize % TYPES.len();
    let ty = TYPES[t];
    let f32_ = ty.contains("f32");
    let positive = ty.starts_with("Geometric") || ty.starts_with("Harmonic");
    // whole-program magnitude
    let e: i8 = u.arbitrary()?;
    let lim = if f32_ { 14 } else { 45 };
    let scale = if e % 3 == 0 { (2f64).powi((e as i32 / 3).clamp(-lim, lim)) } else { 1.0 };
    let mut ops = vec![];
    // sizes of the four registers, tracked so that repeated self-merges cannot grow a state beyond 4000 observations
    // (the model keeps the multiset; doubling 30 times would exhaust memory, not find anything)
    let mut size = [0usize; 4];
    while !u.is_empty() && ops.len() < 400 {
        let code: u8 = u.arbitrary()?;
        let (d, a, b) = (code & 3, (code >> 2) & 3, (code >> 4) & 3);
        let op = match u.arbitrary::<u8>()? % 12 {
            0 => Op::New { dst: d },
            1 | 2 | 3 => Op::Append { dst: d, it: item(&mut u, positive, f32_, scale)? },
            4 | 5 => {
                let n = (u.arbitrary::<u8>()? % 12) as usize;
                let mut its = vec![];
                for _ in 0..n {
                    its.push(item(&mut u, positive, f32_, scale)?);
                }
                if code & 0x40 != 0 {
                    Op::Extend { dst: d, its }
                } else {
                    Op::FromIter { dst: d, its }
                }
            }
            6 => Op::Copy { dst: d, src: a },
            7 | 8 => Op::Add { dst: d, a, b },
            9 => Op::AddAssign { dst: d, src: a },
            _ => {
                let sel: u8 = u.arbitrary()?;
                Op::Query { slot: d, conf: Conf::new(sel % 3, LEVELS[(sel as usize / 3) % LEVELS.len()]), q: X(((sel as f64) + 0.5) / 256.0) }
            }
        };
        match &op {
            Op::New { dst } => size[*dst as usize] = 0,
            Op::Append { dst, .. } => size[*dst as usize] += 1,
            Op::Extend { dst, its } => size[*dst as usize] += its.len(),
            Op::FromIter { dst, its } => size[*dst as usize] = its.len(),
            Op::Copy { dst, src } => size[*dst as usize] = size[*src as usize],
            Op::Add { dst, a, b } => {
                let n = size[*a as usize] + size[*b as usize];
                if n > 4000 {
                    continue;
                }
                size[*dst as usize] = n;
            }
            Op::AddAssign { dst, src } => {
                let n = size[*dst as usize] + size[*src as usize];
                if n > 4000 {
                    continue;
                }
                size[*dst as usize] = n;
            }
            Op::Query { .. } => {}
        }
        ops.push(op);
    }
    Ok(Program { ty: ty.to_string(), ops })
}

fuzz_target!(|data: &[u8]| {
    static INIT: std::sync::Once = std::sync::Once::new();
    INIT.call_once(|| {
        let default = std::panic::take_hook();
        std::panic::set_hook(Box::new(move |info| {
            let msg = info.payload().downcast_ref::<String>().cloned().unwrap_or_default();
            if msg.starts_with("C09 VIOLATION") {
                default(info);
            }
        }));
    });
    let Ok(p) = decode(data) else { return };
    let mut obs = svcheck::engine::Obs::new(std::sync::Arc::new(svcheck::engine::Known::default()));
    let r = svcheck::engine::guard(|| program_case(&p, &mut obs));
    let f = match r {
        Ok(Ok(())) => return,
        Ok(Err(f)) => f,
        Err(panic) => svcheck::engine::Fail { sig: "C09/program/uncaught_panic".into(), msg: panic },
    };
    let allow = std::env::var("SVFUZZ_ALLOW").unwrap_or_default();
    if allow.split(',').any(|s| !s.is_empty() && s == f.sig) {
        return;
    }
    if let Ok(out) = std::env::var("SVFUZZ_OUT") {
        let body = serde_json::json!({"property": "C09", "sub": "program", "sig": f.sig, "message": f.msg, "input": p});
        let name: String = f.sig.chars().map(|c| if c.is_ascii_alphanumeric() { c } else { '_' }).collect();
        let _ = std::fs::create_dir_all(&out);
        let _ = std::fs::write(format!("{out}/fuzz_{name}.json"), serde_json::to_string_pretty(&body).unwrap());
    }
    panic!("C09 VIOLATION {}: {}", f.sig, f.msg);
});
