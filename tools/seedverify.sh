#!/bin/bash
# tools/seedverify.sh <ID> <dir-with-patch.diff,demo.rs,meta.json> [name]
# Independently confirms a seeded change in a scratch worktree (outside /repo and /verif):
#   existing tests pass with it; the demo fails with it and passes without it.
# On success copies the three files to /verif/seeded/<name>/ and appends what was run to meta.json.
set -u
if [ "${1:-}" = "--clean" ]; then git -C /repo worktree remove --force /tmp/seedv/wt 2>/dev/null; rm -rf /tmp/seedv; git -C /repo worktree prune; exit 0; fi
ID="$1"; SRC="$(realpath "$2")"; NAME="${3:-$ID}"
W=/tmp/seedv/wt; export CARGO_NET_OFFLINE=true
# one scratch worktree, reused (same path => cargo's incremental fingerprints stay valid); removed by `seedverify.sh --clean`
if [ ! -d "$W" ]; then git -C /repo worktree prune; git -C /repo worktree add -q --detach "$W" HEAD || exit 2; fi
cd "$W" || exit 2
git checkout -q --detach "$(git -C /repo rev-parse HEAD)" 2>/dev/null
git checkout -q -- . ; rm -f tests/seed_demo.rs
git apply "$SRC/patch.diff" || { echo "RESULT $NAME: patch does not apply to /repo HEAD"; exit 1; }
changed=$(git diff --name-only | tr '\n' ' ')
t1=$(cargo test --offline 2>&1 | grep -E "^test result|^error" ); 
fail1=$(echo "$t1" | grep -c -E "FAILED|^error")
npass=$(echo "$t1" | grep -oE "[0-9]+ passed" | awk '{s+=$1} END{print s}')
cp "$SRC/demo.rs" tests/seed_demo.rs
d_with=$(cargo test --offline ${SEED_DEMO_ARGS:-} --test seed_demo 2>&1 | grep -E "^test result|error\[" | head -3 | tr '\n' ' ')
git checkout -q -- src
d_without=$(cargo test --offline ${SEED_DEMO_ARGS:-} --test seed_demo 2>&1 | grep -E "^test result|error\[" | head -3 | tr '\n' ' ')
git checkout -q -- . ; rm -f tests/seed_demo.rs
ok=1
[ "$fail1" -eq 0 ] || ok=0
echo "$d_with" | grep -q "FAILED" || ok=0
echo "$d_without" | grep -q "test result: ok" || ok=0
echo "RESULT $NAME: existing_tests_with_change: passed=$npass failures=$fail1 | demo_with_change: $d_with | demo_without: $d_without | files: $changed | confirmed=$ok"
if [ $ok -eq 1 ]; then
  mkdir -p /verif/seeded/$NAME
  cp "$SRC/patch.diff" "$SRC/demo.rs" /verif/seeded/$NAME/
  python3 - "$SRC/meta.json" "/verif/seeded/$NAME/meta.json" "$ID" "$npass" "$d_with" "$d_without" "$changed" <<'PY'
import json,sys
src,dst,pid,npass,dw,dwo,changed=sys.argv[1:8]
try: m=json.load(open(src))
except Exception: m={}
m["property"]=pid
m["confirmed_independently"]={"where":"scratch git worktree of /repo HEAD under /tmp/seedv (removed afterwards)","commands":["git apply patch.diff","cargo test --offline","cp demo.rs tests/seed_demo.rs && cargo test --offline --test seed_demo","git checkout -- src && cargo test --offline --test seed_demo"],"existing_tests_passed_with_change":int(npass or 0),"demo_with_change":dw,"demo_without_change":dwo,"files_changed":changed.split()}
json.dump(m,open(dst,"w"),indent=1)
PY
fi
exit $((1-ok))
