#!/bin/bash
# tools/runall.sh [quick|thorough] [seed]   — run every registered check, one line each
cd "$(dirname "$0")/.."
tier="${1:-quick}"; seed="${2:-}"
[ -n "$seed" ] && export VERIF_SEED="$seed"
for id in $(python3 -c "import json;print(' '.join(c['property_id'] for c in json.load(open('MANIFEST.json'))['checks']))"); do
  start=$(date +%s.%N)
  out=$(./check "$id" --tier "$tier" 2>&1); rc=$?
  end=$(date +%s.%N)
  printf "%s rc=%d %5.1fs  %s\n" "$id" "$rc" "$(echo "$end - $start" | bc)" "$(echo "$out" | grep -E "^$id tier" | cut -c1-120)"
  if [ $rc -ne 0 ]; then echo "$out" | grep -E "violated|VIOLATION|INCONCLUSIVE|KNOWN" | head -5 | cut -c1-300; fi
done
