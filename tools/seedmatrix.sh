#!/bin/bash
# tools/seedmatrix.sh [tier] [glob]  — run every registered check against every confirmed seeded change (quick tier by
# default; optional shell glob over seed names, e.g. '*r4', in which case the rows are merged into the existing
# matrix) and write seeded/matrix.json + seeded/MATRIX.md. /repo is restored after each seed.
cd "$(dirname "$0")/.."
tier="${1:-quick}"; pat="${2:-*}"
ids=$(python3 -c "import json;print(' '.join(c['property_id'] for c in json.load(open('MANIFEST.json'))['checks']))")
out=/tmp/seedmatrix.$$.txt; : > $out
# SEEDMATRIX_RAW=<file>: only rebuild the tables from the raw result lines of an earlier run
[ -n "$SEEDMATRIX_RAW" ] && cp "$SEEDMATRIX_RAW" $out
for d in seeded/$pat/; do
  [ -n "$SEEDMATRIX_RAW" ] && break
  name=$(basename "$d"); [ -f "$d/patch.diff" ] || continue
  echo "== $name" >&2
  tools/seedtest.sh "$d/patch.diff" "$tier" $ids 2>/dev/null | while read -r id rc rest; do echo "$name $id $rc $rest" >> $out; done
done
python3 - "$out" "$tier" "$pat" <<'PY'
import sys,json,collections
rows=[l.rstrip('\n').split(' ',3) for l in open(sys.argv[1], errors='replace') if l.strip()]
tier=sys.argv[2]
m=collections.OrderedDict()
import os
if len(sys.argv)>3 and sys.argv[3]!='*' and os.path.exists('seeded/matrix.json'):
    m=collections.OrderedDict(json.load(open('seeded/matrix.json'))["matrix"])
for r in rows:
    if len(r)<3 or not r[2].startswith('rc='): continue
    name,cid,rc=r[0],r[1],int(r[2][3:])
    detail=r[3] if len(r)>3 else ''
    m.setdefault(name,{})[cid]={"rc":rc,"first_violation":detail.split('|')[0].replace('violated: ','').strip()[:220]}
m=collections.OrderedDict(sorted(m.items()))
json.dump({"tier":tier,"matrix":m},open('seeded/matrix.json','w'),indent=1)
checks=sorted({c for v in m.values() for c in v})
lines=["# Seeded changes x checks ("+tier+" tier)","","`X` = the check reports a violation with the change applied to /repo; `.` = silent; `?` = inconclusive (exit 2).","Each row is an independently written change (see `<seed>/meta.json`); the target property is the seed's name.","","| seed | "+" | ".join(checks)+" | caught by target |","|---|"+"|".join(["---"]*len(checks))+"|---|"]
for name,v in sorted(m.items()):
    target=name[:3]
    cells=[("X" if v.get(c,{}).get("rc")==1 else ("?" if v.get(c,{}).get("rc")==2 else ".")) for c in checks]
    lines.append(f"| {name} | "+" | ".join(cells)+f" | {'yes' if v.get(target,{}).get('rc')==1 else 'NO'} |")
open('seeded/MATRIX.md','w').write("\n".join(lines)+"\n")
print("\n".join(lines))
PY
rm -f $out
