#!/bin/bash
# tools/seedtest.sh <patch.diff> [tier] [ids...]  — apply a seeded change to /repo, run the checks, undo it.
# Prints one line per check; never leaves /repo modified.
P="$(realpath "$1")"; tier="${2:-quick}"; shift; shift
cd "$(dirname "$0")/.."
ids="$*"; [ -z "$ids" ] && ids=$(python3 -c "import json;print(' '.join(c['property_id'] for c in json.load(open('MANIFEST.json'))['checks']))")
git -C /repo diff --quiet || { echo "/repo is dirty"; exit 2; }
git -C /repo apply "$P" || { echo "patch does not apply"; exit 2; }
trap 'git -C /repo checkout -- . ; rm -rf /verif/replays' EXIT
for id in $ids; do
  out=$(timeout 1200 ./check "$id" --tier "$tier" 2>/dev/null); rc=$?
  printf "%s rc=%d %s\n" "$id" "$rc" "$(echo "$out" | grep -E "violated:" | head -2 | cut -c1-260 | tr '\n' '|')"
done
