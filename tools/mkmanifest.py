#!/usr/bin/env python3
"""Regenerates /verif/MANIFEST.json from the table below (keeps it schema-valid at all times)."""
import json, os, subprocess
V = os.path.dirname(os.path.dirname(os.path.abspath(__file__)))
ids = [json.loads(l)['id'] for l in open(f'{V}/properties.jsonl')]
# id -> (technique, level text, level note, design ref)
C = {}
def add(i, technique, text, note, ref=None):
    C[i] = dict(technique=technique, text=text, note=note, ref=ref or f"DESIGN.md §6 {i}")
exec(open(f'{V}/tools/claims.py').read())
fixes = []
try:
    out = subprocess.run(['git', '-C', '/repo', 'log', '--format=%h %s'], capture_output=True, text=True).stdout
    fixes = [l for l in out.splitlines() if l.split(' ', 1)[1].startswith('fix:')]
except Exception:
    pass
m = {
 "version": 1,
 "setup_cmd": "./check --build",
 "hooks": {"guard": "stats_ci_verif", "enable": "no hooks: every property is observable through the public API (hook_needed is null for all 20); the harness is an external crate with a path dependency on /repo, rebuilt from the working tree by every check",
           "baseline_off_cmd": "cd /repo && cargo test --workspace --no-fail-fast --offline", "source_commits": [], "add_only": True},
 "engines": [
   {"name": "svcheck", "path": "harness/", "serves_properties": [i for i in ids if i in C and i != 'C20'], "kind_free_text": "Rust binary: proptest 1.11 TestRunner (fixed seeds, shrinking, no persistence) + bounded exhaustive enumerators, exact big-integer and own-quadrature oracles, evidence/replay writer"},
   {"name": "svserde", "path": "harness-serde/", "serves_properties": ["C20"], "kind_free_text": "c20.sh builds /repo under each advertised feature set, then a Rust binary (stats-ci with the serde feature; shares engine.rs) runs proptest round-trip histories through serde_json and ciborium"},
 ],
 "checks": [],
 "notes": "fix: commits in /repo (genuine defects repaired): " + "; ".join(fixes) + ". See known_findings.txt and DESIGN.md §7.",
 "not_applicable": [],
}
for i in ids:
    if i in C:
        c = C[i]
        m["checks"].append({
            "property_id": i,
            "quick_cmd": f"./check {i} --tier quick",
            "thorough_cmd": f"./check {i} --tier thorough",
            "evidence_file": f"evidence/{i}.json",
            "replay_cmd_template": f"./check {i} --replay {{path}}",
            "engine": "svserde" if i == "C20" else "svcheck",
            "level_claimed": {"category": "exploration", "text": c["text"], "design_ref": c["ref"]},
            "level_note": c["note"],
            "technique": c["technique"],
        })
    else:
        m["not_applicable"].append({"property_id": i, "reason": "check not built yet (build round in progress); it will be claimed once its check exists — no property is considered outside the technique (DESIGN.md §8)"})
json.dump(m, open(f'{V}/MANIFEST.json', 'w'), indent=1)
print("checks:", [c["property_id"] for c in m["checks"]])
