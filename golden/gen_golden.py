#!/usr/bin/env python3-vt
"""Reference tables for the harness' own distribution functions (refmath.rs), computed with
mpmath at 30 digits. Run once: python3-vt gen_golden.py > golden.json (committed).

The t tail probability is obtained by tanh-sinh quadrature of the density (independent of any
incomplete-beta code), in the variable theta with t = sqrt(v) tan(theta)."""
import json, sys
from mpmath import mp, mpf, erfc, sqrt, findroot, binomial, gamma, nstr, loggamma, log, pi, quad, exp, cos, atan
mp.dps = 30

_norm = {}
def t_lognorm(v):
    if v not in _norm:
        _norm[v] = loggamma((v+1)/2) - loggamma(v/2) - log(v*pi)/2
    return _norm[v]

def t_sf(v, t):
    v = mpf(v); t = mpf(t)
    if t == 0: return mpf(1)/2
    if t < 0: return 1 - t_sf(v, -t)
    c = t_lognorm(v) + log(v)/2
    th = atan(t/sqrt(v))
    w = 1/sqrt(v)
    pts = [th]; x = th; k = 0
    while x + w*(2**k) < pi/2 and k < 30:
        x = x + w*(2**k); pts.append(x); k += 1
    pts.append(pi/2)
    return quad(lambda u: exp(c + (v-1)*log(cos(u))), pts)

def t_pdf(v, t):
    v = mpf(v); t = mpf(t)
    return exp(t_lognorm(v) - (v+1)/2*log(1+t*t/v))

def n_sf(z):
    return erfc(mpf(z)/sqrt(2))/2

def s(x): return nstr(x, 22)

dofs = [1, 1.5, 2, 2.5, 3, 3.7, 4, 5, 7, 10, 15, 20, 30, 50, 99, 100, 200, 500, 1000, 1999.5, 3000, 10000, 30000, 99999, 100000.5, 200000]
args = [0, 0.01, 0.1, 0.3, 0.5, 0.75, 1, 1.25, 1.5, 1.96, 2, 2.5, 3, 3.5, 4, 5, 7, 10, 30, 100, 1000, 5000]
out = {"t_sf": [], "t_q": [], "n_sf": [], "n_q": [], "binom": [], "gratio": []}
for v in dofs:
    for t in args:
        out["t_sf"].append([repr(float(v)), repr(float(t)), s(t_sf(v, t))])
    print("dof", v, file=sys.stderr)
probs = [0.5005, 0.51, 0.6, 0.75, 0.9, 0.95, 0.975, 0.99, 0.995, 0.999, 0.9995, 0.9999, 0.99995]
from scipy import stats as st
for v in [1, 1.5, 2, 3, 4.4, 5, 9, 10, 29, 30, 99, 100, 1000, 9999, 99999, 150000.5]:
    for p in probs:
        q = 1 - mpf(repr(p))
        c = mpf(float(st.t.isf(float(q), v)))     # starting point only
        for _ in range(4):                         # Newton on the 30-digit tail
            c = c + (t_sf(v, c) - q)/t_pdf(v, c)
        out["t_q"].append([repr(float(v)), repr(p), s(c)])
    print("q dof", v, file=sys.stderr)
for z in [0, 0.001, 0.1, 0.5, 0.69, 0.7, 0.71, 1, 1.5, 1.96, 2, 2.5, 3, 3.5, 4, 5, 6, 8]:
    out["n_sf"].append([repr(float(z)), s(n_sf(z))])
for p in [0.001, 0.01, 0.1, 0.3, 0.49, 0.5005, 0.51, 0.6, 0.75, 0.9, 0.95, 0.975, 0.99, 0.995, 0.999, 0.9995, 0.9999, 0.99995]:
    q = 1 - mpf(repr(p))
    z = findroot(lambda z: n_sf(z) - q, 0.5, tol=mpf(10)**-24)
    out["n_q"].append([repr(p), s(z)])
for (n, p, ks) in [(10, 0.5, [0, 5, 10]), (25, 0.4, [0, 3, 10, 24]), (400, 0.05, [5, 20, 40]), (1000, 0.3, [250, 300, 360]), (5000, 0.9, [4400, 4500, 4560])]:
    pp = mpf(repr(p))
    for k in ks:
        out["binom"].append([n, repr(p), k, s(binomial(n, k) * pp**k * (1-pp)**(n-k))])
for a in [0.5, 0.75, 1, 2.25, 10, 39.5, 40, 41.3, 500, 49999.5, 1e5]:
    out["gratio"].append([repr(float(a)), s(gamma(mpf(a)+mpf(1)/2)/gamma(mpf(a)))])
json.dump(out, sys.stdout, indent=0)
