#!/bin/bash
# C20 driver: (1) build /repo under each advertised feature set, (2) build and run the serde round-trip harness.
# usage: c20.sh [--tier quick|thorough] [--replay FILE]
set -u
export CARGO_NET_OFFLINE=true
V="${VERIF_DIR:-/verif}"
TIER="${VERIF_TIER:-quick}"; REPLAY=""
while [ $# -gt 0 ]; do case "$1" in --tier) TIER="$2"; shift 2;; --replay) REPLAY="$2"; shift 2;; *) echo "unknown argument $1"; exit 2;; esac; done
SEED="${VERIF_SEED:-20260928}"
mkdir -p "$V/target/features" "$V/evidence" "$V/replays/C20"
B="$V/target/c20_builds.jsonl"; : > "$B"
start=$(date +%s.%N)
build_one() { # name, args...
  local name="$1"; shift
  local log="$V/target/features/build-$name.log"
  local t0=$(date +%s.%N)
  ( cd /repo && cargo build --offline --lib --target-dir "$V/target/features/$name" "$@" ) >"$log" 2>&1
  local rc=$?
  local t1=$(date +%s.%N)
  python3 - "$name" "$rc" "$log" "$(echo "$t1 - $t0" | bc)" "$*" >> "$B" <<'PY'
import json,sys
name,rc,log,secs,args=sys.argv[1:6]
txt=open(log,errors='replace').read()
errs=[l for l in txt.splitlines() if l.startswith('error')]
print(json.dumps({"feature_set":name,"cargo_args":args,"ok":rc=="0","seconds":float(secs),"errors":errs[:12],"log_tail":txt[-1500:] if rc!="0" else ""}))
PY
}
build_probe() { # the advertised std+serde set, seen from a dependent crate that needs Serialize + DeserializeOwned of every listed type
  local name="std_serde_traits"
  local log="$V/target/features/build-$name.log"
  local t0=$(date +%s.%N)
  ( cd "$V/harness-serde/probe" && cargo build --offline --target-dir "$V/target/features/$name" ) >"$log" 2>&1
  local rc=$?
  local t1=$(date +%s.%N)
  python3 - "$name" "$rc" "$log" "$(echo "$t1 - $t0" | bc)" >> "$B" <<'PY'
import json,sys
name,rc,log,secs=sys.argv[1:5]
txt=open(log,errors='replace').read()
errs=[l for l in txt.splitlines() if l.startswith('error')]
print(json.dumps({"feature_set":name,"cargo_args":"(dependent crate harness-serde/probe: stats-ci with --no-default-features --features std,serde; every listed type must implement Serialize + DeserializeOwned)","command":"cd /verif/harness-serde/probe && cargo build --offline","ok":rc=="0","seconds":float(secs),"errors":errs[:12],"log_tail":txt[-2500:] if rc!="0" else ""}))
PY
}
if [ -z "$REPLAY" ] || grep -q -E '"sub": *"(feature_build|not_serializable)"' "$REPLAY" 2>/dev/null; then
  build_one default
  build_one std --no-default-features --features std
  build_one std_approx --no-default-features --features std,approx
  build_one std_serde --no-default-features --features std,serde
  build_one all --all-features
  build_probe
fi
# the round-trip harness depends on stats-ci with the serde feature
H="$V/target/build-serde.log"
if ( cd "$V/harness-serde" && cargo build --release --offline ) >"$H" 2>&1; then
  args=(--tier "$TIER" --builds "$B")
  [ -n "$REPLAY" ] && args+=(--replay "$REPLAY")
  VERIF_DIR="$V" VERIF_SEED="$SEED" exec "$V/target/serde/release/svserde" "${args[@]}"
fi
# harness does not build: if that is because stats-ci + serde does not compile, it is C20's violation
end=$(date +%s.%N)
python3 - "$B" "$H" "$TIER" "$SEED" "$V" "$(echo "$end - $start" | bc)" <<'PY'
import json,sys
b,h,tier,seed,V,wall=sys.argv[1:7]
builds=[json.loads(l) for l in open(b) if l.strip()]
failed=[x for x in builds if not x["ok"]]
htxt=open(h,errors='replace').read()
repo_fault = any(not x["ok"] for x in builds) or "/repo/src" in htxt
viol=[]
for x in failed:
    path=f"{V}/replays/C20/feature_build_{x['feature_set']}.json"
    json.dump({"property":"C20","sub":"feature_build","sig":f"C20/feature_build/{x['feature_set']}","message":"; ".join(x["errors"][:3]),"input":{"feature_set":x["feature_set"],"command":"cd /repo && cargo build --offline --lib "+x["cargo_args"],"compiler_output":x["log_tail"]}},open(path,"w"),indent=1)
    viol.append((x["feature_set"],path))
ev={"property_id":"C20","tier":tier,"seed":int(seed),"level":"exploration",
    "coverage":{"evaluations":len(builds),"distinct_nontrivial":len(builds),"rule":"all five advertised feature sets are built (enumerated completely), plus a dependent probe crate under std+serde; the serde round-trip harness could not be built, so no round trips were explored in this run","samples":builds,"exhaustive":False,"feature_builds":builds,"round_trip_harness":"does not build","harness_log_tail":htxt[-1500:]},
    "assumptions":["cargo build --offline --lib of /repo's working tree per feature set"],"wall_s":float(wall),"violations":len(viol)}
json.dump(ev,open(f"{V}/evidence/C20.json","w"),indent=1)
print(f"C20 tier={tier} seed={seed} feature_sets_built={len(builds)} failed={len(failed)} round_trip_harness=does-not-build")
for name,path in viol:
    print(f"  violated: C20/feature_build/{name}")
    print(f"VIOLATION property=C20 replay={path}")
import re
if not viol and re.search(r"E0277", htxt) and re.search(r"(Serialize|Deserialize|DeserializeOwned)", htxt):
    # every feature set builds, but a state type the property lists is not serialisable
    m=re.findall(r"the trait bound `([^`]*)` is not satisfied", htxt)
    path=f"{V}/replays/C20/not_serializable.json"
    json.dump({"property":"C20","sub":"not_serializable","sig":"C20/not_serializable","message":"; ".join(sorted(set(m)))[:400],"input":{"command":"cd /verif/harness-serde && cargo build --release --offline","compiler_output":htxt[-3000:]}},open(path,"w"),indent=1)
    ev["violations"]=1; ev["coverage"]["round_trip_harness"]="does not build: a listed state type lacks Serialize/Deserialize: "+"; ".join(sorted(set(m)))[:300]
    json.dump(ev,open(f"{V}/evidence/C20.json","w"),indent=1)
    print("  violated: C20/not_serializable: "+"; ".join(sorted(set(m)))[:300])
    print(f"VIOLATION property=C20 replay={path}")
    sys.exit(1)
if viol: sys.exit(1)
print("INCONCLUSIVE: harness-serde does not build although every feature set of /repo builds; see "+h)
sys.exit(2)
PY
